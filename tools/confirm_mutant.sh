#!/bin/bash
# usage: confirm_mutant.sh <worktree> <mutant-dir>   (mutant-dir has patch.diff demo.diff demo_cmd.txt)
# Confirms: demo passes on pristine, fails with patch; suite passes with patch (with and without jit).
WT="$1"; M="$2"
cd "$WT" || exit 2
git checkout -q -- . && git clean -fdq -e target
export CARGO_NET_OFFLINE=true
DEMO="$(grep -m1 cargo "$M/demo_cmd.txt")"
res() { echo "$1" | tee -a "$M/confirm.log"; }
: > "$M/confirm.log"
git apply "$M/demo.diff" || { res "FAIL: demo.diff does not apply"; exit 1; }
if (eval "$DEMO") > "$M/demo_pristine.out" 2>&1; then res "demo on pristine: pass"; else res "FAIL: demo fails on pristine"; git checkout -q -- .; git clean -fdq -e target; exit 1; fi
git apply "$M/patch.diff" || { res "FAIL: patch.diff does not apply on demo"; git checkout -q -- .; exit 1; }
if (eval "$DEMO") > "$M/demo_patched.out" 2>&1; then res "FAIL: demo passes with patch"; git checkout -q -- .; git clean -fdq -e target; exit 1; else res "demo with patch: fails (as required)"; fi
git checkout -q -- . && git clean -fdq -e target
git apply "$M/patch.diff"
cargo test --offline > "$M/suite_patched.out" 2>&1; r1=$?
res "suite with patch: rc=$r1 $(grep -m1 'test result' "$M/suite_patched.out")"
cargo test --offline --features jit > "$M/suite_patched_jit.out" 2>&1; r2=$?
res "suite(jit) with patch: rc=$r2 $(grep -m1 'test result' "$M/suite_patched_jit.out")"
git checkout -q -- . && git clean -fdq -e target
[ $r1 = 0 ] && [ $r2 = 0 ] && res "CONFIRMED" && exit 0
exit 1
