#!/usr/bin/env python3
"""Prints the markdown table of seeded changes and which check caught each (from seeded/*/meta.json)."""
import json, glob, os, re
rows = []
for d in sorted(glob.glob("/verif/seeded/C*-[ab]")):
    m = json.load(open(os.path.join(d, "meta.json")))
    det = m.get("detection", {})
    notes = m.get("needs_to_manifest", "")
    first = ""
    for line in notes.splitlines():
        line = line.strip(" -*#")
        if len(line) > 25 and not line.lower().startswith(("change", "notes")):
            first = line; break
    runs = "; ".join(f"{r['check']}: exit {r['exit']} ({r['wall_s']} s)" for r in det.get("runs", []))
    caught = ", ".join(det.get("caught_by", [])) or ("-" if det else "not run")
    keys = []
    for r in det.get("runs", []):
        if r["exit"] == 1:
            keys += [re.sub(r"^\s*failing obligation:\s*", "", l) for l in r["report"] if "failing obligation" in l][:2]
    rows.append((os.path.basename(d), first[:110], caught, "; ".join(keys)[:90], runs))
print("| change | what it does (from its author's notes) | caught by (quick) | failing obligation | runs |")
print("|---|---|---|---|---|")
for r in rows:
    print("| " + " | ".join(x.replace("|", "/") for x in r) + " |")
