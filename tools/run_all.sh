#!/bin/sh
# usage: tools/run_all.sh [tier] [ids...]  -> runs checks sequentially, prints exit code and wall time of each
TIER="${1:-quick}"; shift
IDS="${@:-C01 C02 C03 C04 C05 C06 C07 C08 C09 C10 C11 C12 C13 C14 C15 C16 C17 C18 C19 C20}"
cd "$(dirname "$0")/.."
for id in $IDS; do
  s=$(date +%s)
  ./bin/check $id --tier $TIER > /tmp/all_$id.log 2>&1
  rc=$?
  e=$(date +%s)
  echo "$id exit=$rc wall=$((e-s))s $(grep -c '^VIOLATION' /tmp/all_$id.log) violations $(grep -c '^INCONCLUSIVE' /tmp/all_$id.log) inconclusive"
done
