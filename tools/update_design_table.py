#!/usr/bin/env python3
"""Replaces the seeded-changes table in DESIGN.md (between the markers) with the current records."""
import subprocess, re
p = "/verif/DESIGN.md"
s = open(p).read()
table = subprocess.check_output(["python3", "/verif/tools/seeded_table.py"], text=True).strip()
block = "<!-- SEEDED-TABLE-BEGIN -->\n" + table + "\n<!-- SEEDED-TABLE-END -->"
if "SEEDED_TABLE_PLACEHOLDER" in s:
    s = s.replace("SEEDED_TABLE_PLACEHOLDER", block)
else:
    s = re.sub(r"<!-- SEEDED-TABLE-BEGIN -->.*?<!-- SEEDED-TABLE-END -->", lambda m: block, s, flags=re.S)
open(p, "w").write(s)
print("table rows:", table.count("\n") - 1)
