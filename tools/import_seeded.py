#!/usr/bin/env python3
"""Copies confirmed sub-agent changes from /tmp/mut/out-<ID>/<k> into /verif/seeded/<ID>-<k>/ and checks
whether each patch still applies to /repo HEAD (3-way), writing patch.rebased.diff when it needs rebasing."""
import os, json, shutil, subprocess, glob, re
SRC = "/tmp/mut"; DST = "/verif/seeded"
os.makedirs(DST, exist_ok=True)
for d in sorted(glob.glob(f"{SRC}/out-C*/[ab]")):
    pid = re.search(r"out-(C\d\d)", d).group(1); k = os.path.basename(d)
    log = os.path.join(d, "confirm.log")
    if not os.path.exists(log) or "CONFIRMED" not in open(log).read():
        print("skip (not confirmed)", d); continue
    out = os.path.join(DST, f"{pid}-{k}")
    os.makedirs(out, exist_ok=True)
    for f in ("patch.diff", "demo.diff", "demo_cmd.txt", "notes.md", "confirm.log"):
        if os.path.exists(os.path.join(d, f)): shutil.copy(os.path.join(d, f), os.path.join(out, f))
    notes = open(os.path.join(d, "notes.md")).read() if os.path.exists(os.path.join(d, "notes.md")) else ""
    meta_p = os.path.join(out, "meta.json")
    meta = json.load(open(meta_p)) if os.path.exists(meta_p) else {}
    meta.update({"breaks_property": pid, "source": "independent sub-agent given only the property text and a scratch worktree at the pinned commit",
                 "needs_to_manifest": notes.strip()[:1500],
                 "confirmed_by": "tools/confirm_mutant.sh in a scratch worktree: demo passes on pristine, fails with the patch; the 98 tests pass with the patch with and without --features jit",
                 "confirm_log": open(log).read().strip().splitlines()})
    json.dump(meta, open(meta_p, "w"), indent=1)
    print("imported", out)
