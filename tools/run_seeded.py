#!/usr/bin/env python3
"""Runs the relevant quick checks against each seeded change (applied in a scratch worktree of /repo HEAD, selected
through VERIF_REPO so that /repo itself stays untouched), and records which check catches which change.
usage: run_seeded.py [names...]   (default: all under /verif/seeded)"""
import os, sys, json, subprocess, glob, time, re
VERIF = "/verif"; WT = "/tmp/seed-wt"
CHECKS = {"C01": ["C01"], "C02": ["C02"], "C03": ["C03"], "C04": ["C04", "C02", "C01"], "C05": ["C05"], "C06": ["C06"], "C07": ["C07"], "C08": ["C08"],
          "C09": ["C09", "C16", "C07"], "C10": ["C10", "C12", "C03"], "C11": ["C11", "C19"], "C12": ["C12"], "C13": ["C13"], "C14": ["C14"], "C15": ["C15"],
          "C16": ["C16"], "C17": ["C17"], "C18": ["C18"], "C19": ["C19"], "C20": ["C20"]}

def sh(cmd, **kw):
    return subprocess.run(cmd, shell=True, text=True, capture_output=True, **kw)

def main():
    names = sys.argv[1:] or sorted(os.path.basename(d) for d in glob.glob(f"{VERIF}/seeded/C*-[ab]"))
    sh(f"git -C /repo worktree remove --force {WT}")
    r = sh(f"git -C /repo worktree add --detach {WT} HEAD")
    if r.returncode != 0:
        print(r.stderr); return 2
    head = sh("git -C /repo rev-parse --short HEAD").stdout.strip()
    try:
        for n in names:
            d = f"{VERIF}/seeded/{n}"
            patch = f"{d}/patch.rebased.diff" if os.path.exists(f"{d}/patch.rebased.diff") else f"{d}/patch.diff"
            sh(f"git -C {WT} checkout -q -- . && git -C {WT} clean -fdq")
            a = sh(f"git -C {WT} apply {patch}")
            meta = json.load(open(f"{d}/meta.json"))
            if a.returncode != 0:
                meta["detection"] = {"repo_head": head, "error": "patch does not apply to HEAD: " + a.stderr[-300:]}
                json.dump(meta, open(f"{d}/meta.json", "w"), indent=1)
                print(n, "DOES NOT APPLY"); continue
            pid = meta["breaks_property"]
            det = {"repo_head": head, "patch_used": os.path.basename(patch), "runs": [], "caught_by": []}
            for c in CHECKS[pid]:
                t0 = time.time()
                env = dict(os.environ, VERIF_REPO=WT, VERIF_EVIDENCE_DIR=f"/tmp/seed-evidence", VERIF_REPLAY_DIR=f"{d}/replays")
                p = subprocess.run([f"{VERIF}/bin/check", c, "--tier", "quick"], cwd=VERIF, env=env, text=True, capture_output=True)
                lines = [l for l in p.stdout.splitlines() if l.startswith(("VIOLATION", "  failing obligation", "INCONCLUSIVE", "KNOWN-FINDING"))]
                det["runs"].append({"check": c, "exit": p.returncode, "wall_s": round(time.time() - t0), "report": lines[:12]})
                print(n, c, "exit", p.returncode, f"{time.time()-t0:.0f}s", flush=True)
                if p.returncode == 1:
                    det["caught_by"].append(c)
                    break
            meta["detection"] = det
            json.dump(meta, open(f"{d}/meta.json", "w"), indent=1)
    finally:
        sh(f"git -C /repo worktree remove --force {WT}")
    return 0

if __name__ == "__main__":
    sys.exit(main())
