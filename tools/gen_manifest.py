#!/usr/bin/env python3
"""Regenerates MANIFEST.json from lib/props.py (claimed checks) and tools/not_applicable.json."""
import json, os, sys
HERE = os.path.dirname(os.path.abspath(__file__)); VERIF = os.path.dirname(HERE)
sys.path.insert(0, os.path.join(VERIF, "lib"))
import props as P
ids = [json.loads(l)["id"] for l in open(os.path.join(VERIF, "properties.jsonl"))]
na_file = os.path.join(HERE, "not_applicable.json")
na = json.load(open(na_file)) if os.path.exists(na_file) else {}
checks = []
for i in ids:
    if i not in P.PROPS: continue
    s = P.PROPS[i]
    checks.append({
        "property_id": i,
        "quick_cmd": f"./bin/check {i} --tier quick",
        "thorough_cmd": f"./bin/check {i} --tier thorough",
        "evidence_file": f"/verif/evidence/{i}.json",
        "replay_cmd_template": f"./bin/check {i} --replay {{path}}",
        "engine": "kani-mirror",
        "level_claimed": {"category": s["level"], "text": s.get("level_text", ""), "design_ref": s.get("design_ref", f"DESIGN.md section 4, {i}")},
        "level_note": s.get("level_note", "Trusted: Kani MIR->GOTO translation, CBMC 6.11 + CaDiCaL, the harness-side reference model; bounds, stubs and assumptions are listed in the evidence file."),
        "technique": s.get("technique", "bounded model checking of the real Rust code with Kani/CBMC (SAT), symbolic inputs vs reference model"),
    })
nas = []
for i in ids:
    if i in P.PROPS: continue
    nas.append({"property_id": i, "reason": na.get(i, "check not built yet in this session (work in progress; see DESIGN.md section 4)")})
m = {
    "version": 1,
    "setup_cmd": "./bin/setup",
    "hooks": {"guard": "kani (cfg set by the Kani compiler only) + verif_cNN cfgs, all inside the scratch mirror copy; /repo carries no hook code",
              "enable": "bin/check copies /repo's working tree to a scratch mirror and appends /verif/harness/append/** under #[cfg(kani)]; RUSTFLAGS=--cfg verif_cNN selects the harness set",
              "baseline_off_cmd": "cd /repo && cargo test --workspace --no-fail-fast --offline",
              "source_commits": [], "add_only": True},
    "engines": [{"name": "kani-mirror", "path": "/verif/lib", "serves_properties": [c["property_id"] for c in checks],
                 "kind_free_text": "Kani 0.68 / CBMC 6.11 bounded model checking of a regenerated mirror of /repo with appended #[cfg(kani)] harnesses; x86-64 subset semantics for emitted code; native replay via Kani concrete playback"}],
    "checks": checks,
    "not_applicable": nas,
    "notes": "Exit codes of bin/check: 0 held on everything explored, 1 VIOLATION (replayed), 2 inconclusive (time-out, unwinding bound, infrastructure). Known findings: /verif/known_findings.json.",
}
json.dump(m, open(os.path.join(VERIF, "MANIFEST.json"), "w"), indent=1); open(os.path.join(VERIF, "MANIFEST.json"), "a").write("\n")
print("checks:", [c["property_id"] for c in checks], "n/a:", len(nas))
