"""Generic driver: build mirror, run Kani harness groups, classify, replay,
known findings, evidence.  See DESIGN.md section 2."""
import os, sys, json, re, time, subprocess, resource, hashlib, shutil, fnmatch

HERE = os.path.dirname(os.path.abspath(__file__))
VERIF = os.path.dirname(HERE)
sys.path.insert(0, HERE)
import mirror as mirror_mod

KANI_ENV_BASE = {
    "CARGO_NET_OFFLINE": "true",
    "CARGO_TERM_COLOR": "never",
}


def log(*a):
    print(*a, file=sys.stderr, flush=True)


def _limit(mem_gb):
    def f():
        if mem_gb:
            b = int(mem_gb * (1 << 30))
            resource.setrlimit(resource.RLIMIT_AS, (b, b))
    return f


def run_cmd(cmd, cwd, env=None, timeout=None, mem_gb=None, capture=True):
    e = dict(os.environ)
    e.update(KANI_ENV_BASE)
    if env:
        e.update(env)
    t0 = time.time()
    try:
        p = subprocess.run(cmd, cwd=cwd, env=e, timeout=timeout, preexec_fn=_limit(mem_gb),
                           stdout=subprocess.PIPE if capture else None,
                           stderr=subprocess.STDOUT if capture else None, text=True, errors="replace")
        return p.returncode, p.stdout or "", time.time() - t0, False
    except subprocess.TimeoutExpired as ex:
        out = ex.stdout or ""
        if isinstance(out, bytes):
            out = out.decode("utf-8", "replace")
        # make sure no cbmc children linger
        subprocess.run(["pkill", "-f", cwd], check=False)
        return -9, out, time.time() - t0, True


def rustflags(cfgs):
    return " ".join(f"--cfg {c}" for c in cfgs)


class Group:
    """One `cargo kani` invocation: a set of cfg flags / features selecting harnesses."""

    def __init__(self, name, cfgs, features=(), jobs=8, harness_timeout=600, mem_gb=16, total_timeout=None,
                 filters=(), extra_args=()):
        self.name = name
        self.cfgs = list(cfgs)
        self.features = list(features)
        self.jobs = jobs
        self.harness_timeout = harness_timeout
        self.mem_gb = mem_gb
        self.total_timeout = total_timeout
        self.filters = list(filters)
        self.extra_args = list(extra_args)


def run_group(mdir, g, tier_cfgs=()):
    """Returns dict(harnesses={name: info}, raw_tail, wall, infra_error)"""
    resfile = os.path.join(mdir, f"res-{g.name}.json")
    if os.path.exists(resfile):
        os.remove(resfile)
    # --no-assertion-reach-checks: Kani's per-assertion reachability instrumentation makes CBMC emit a trace for every
    # reachable assertion (hundreds of MB of JSON per harness); vacuity is guarded by cover!("reached") + witnesses instead
    cmd = ["cargo", "kani", "-Z", "stubbing", "-Z", "unstable-options", "--no-assertion-reach-checks", "--output-format", "terse",
           "-j", str(g.jobs), "--harness-timeout", f"{g.harness_timeout}s", "--export-json", resfile]
    if g.features:
        cmd += ["--features", ",".join(g.features)]
    for f in g.filters:
        cmd += ["--harness", f]
    cmd += g.extra_args
    env = {"RUSTFLAGS": rustflags(g.cfgs + list(tier_cfgs))}
    tt = g.total_timeout or (g.harness_timeout * 4 + 600)
    rc, out, wall, timed_out = run_cmd(cmd, mdir, env=env, timeout=tt, mem_gb=g.mem_gb)
    res = {"group": g.name, "wall_s": round(wall, 1), "rc": rc, "timed_out": timed_out, "harnesses": {},
           "infra_error": None, "cmd": " ".join(cmd), "rustflags": env["RUSTFLAGS"]}
    if not os.path.exists(resfile):
        res["infra_error"] = "no result file (compile error or driver crash)"
        res["tail"] = strip_warnings(out)[-6000:]
        return res
    try:
        d = json.load(open(resfile))
    except Exception as ex:
        res["infra_error"] = f"unreadable result file: {ex}"
        res["tail"] = strip_warnings(out)[-6000:]
        return res
    stats = {c["harness_id"]: (c.get("cbmc_stats") or {}) for c in d.get("cbmc", [])}
    errs = {c["harness_id"]: c for c in d.get("error_details", [])}
    listed = {h["pretty_name"] for h in d.get("harness_metadata", [])}
    for r in d["verification_results"]["results"]:
        hid = r["harness_id"]
        info = {"status": r["status"], "duration_ms": r.get("duration_ms", 0), "failed": [], "covers": {},
                "n_checks": len(r.get("checks", [])), "unwind_failed": False, "undetermined": 0,
                "stats": stats.get(hid, {}), "err": errs.get(hid, {}), "tags_ok": []}
        for c in r.get("checks", []):
            cat, st, desc = c.get("category"), c.get("status"), c.get("description", "")
            if cat == "cover":
                info["covers"][desc] = st
                continue
            if st in ("Failure",):
                if cat == "unwind" or "unwinding assertion" in desc:
                    info["unwind_failed"] = True
                info["failed"].append({"category": cat, "description": desc, "function": c.get("function", ""),
                                       "file": c.get("location", {}).get("file", ""),
                                       "line": c.get("location", {}).get("line", "")})
            elif st in ("Undetermined", "SolverError"):
                info["undetermined"] += 1
            elif st == "Success" and cat == "assertion" and norm_desc(desc).startswith('"C'):
                info["tags_ok"].append(norm_desc(desc).strip('"'))
        res["harnesses"][hid] = info
    for h in listed:
        if h not in res["harnesses"]:
            res["harnesses"][h] = {"status": "NotRun", "failed": [], "covers": {}, "n_checks": 0,
                                   "unwind_failed": False, "undetermined": 0, "stats": {}, "err": {}, "tags_ok": [],
                                   "duration_ms": 0}
    res["tail"] = strip_warnings(out)[-3000:]
    return res


def strip_warnings(out):
    keep = []
    skip = False
    for line in out.splitlines():
        if line.startswith("warning"):
            skip = True
            continue
        if skip:
            if line.startswith(" ") or line.strip() == "" or re.match(r"^\d+ +\|", line) or line.startswith("help") or line.startswith("note"):
                continue
            skip = False
        keep.append(line)
    return "\n".join(keep)


def norm_desc(d):
    """`concat! ("C05.a@", "80")` (how Kani prints a macro-built message) -> "C05.a@80" """
    m = re.match(r'^\s*concat\s*!\s*\((.*)\)\s*$', d.strip())
    if m:
        parts = re.findall(r'"([^"]*)"', m.group(1))
        return '"' + "".join(parts) + '"'
    return d


def fail_key(f):
    """Role key of a failed check: the tag of a harness assertion, or
    category:description@function for a check inside the real code."""
    d = norm_desc(f["description"])
    m = re.match(r'^"?(C\d\d[A-Za-z0-9_.\-@]*)"?$', d.strip())
    if m:
        return m.group(1)
    fn = f["function"]
    return f"{f['category']}:{d}@{fn}"


# ---------------------------------------------------------------------------
# known findings


def load_known():
    p = os.path.join(VERIF, "known_findings.json")
    if not os.path.exists(p):
        return {"open": [], "fixed": []}
    return json.load(open(p))


def match_known(known, prop, harness, key):
    short = harness.split("::")[-1]
    for k in known.get("open", []):
        if k["property"] != prop:
            continue
        if not fnmatch.fnmatchcase(short, k.get("harness", "*")):
            continue
        if not fnmatch.fnmatchcase(key, k.get("key", "*")):
            continue
        return k
    return None


# ---------------------------------------------------------------------------
# replay through Kani concrete playback (native execution of the same harness
# on the real code with the counterexample's values)


def insert_tests(mdir, relfile, module, test_src):
    p = os.path.join(mdir, relfile)
    txt = open(p).read()
    marker = f"// VERIF-END {module}"
    if marker not in txt:
        return False
    txt = txt.replace(marker, test_src + "\n" + marker, 1)
    open(p, "w").write(txt)
    return True


def extract_playback_tests(out):
    """Returns list of (check_description, test_name, source) from --concrete-playback=print output."""
    tests = []
    for m in re.finditer(r"```\n?(.*?)```", out, re.S):
        body = m.group(1)
        nm = re.search(r"fn (kani_concrete_playback_\w+)\(", body)
        chk = re.search(r'Check for `[^`]*`: "(.*)"\s*$', body, re.M)
        if nm:
            tests.append((chk.group(1) if chk else "", nm.group(1), body))
    return tests


def kani_counterexample(mdir, g, harness, tier_cfgs=()):
    cmd = ["cargo", "kani", "-Z", "stubbing", "-Z", "unstable-options", "-Z", "concrete-playback",
           "--concrete-playback=print", "--no-assertion-reach-checks", "--harness", harness, "--exact",
           "--harness-timeout", f"{g.harness_timeout}s"]
    if g.features:
        cmd += ["--features", ",".join(g.features)]
    env = {"RUSTFLAGS": rustflags(g.cfgs + list(tier_cfgs))}
    # trace generation needs far more memory than the verdict run: no address-space cap here, only the time-out
    rc, out, wall, to = run_cmd(cmd, mdir, env=env, timeout=g.harness_timeout + 1800, mem_gb=None)
    return extract_playback_tests(out), out


def native_playback(mdir, g, test_names, tier_cfgs=(), timeout=900):
    """Run generated tests natively (dev profile, the profile Kani models).  Returns {test: (failed, message)}"""
    cmd = ["cargo", "kani", "playback", "-Z", "concrete-playback"]
    if g.features:
        cmd += ["--features", ",".join(g.features)]
    cmd += ["--"] + (list(test_names) if len(test_names) <= 4 else ["kani_concrete_playback"]) + ["--test-threads", "1", "--nocapture"]
    env = {"RUSTFLAGS": rustflags(g.cfgs + list(tier_cfgs) + ["verif_playback"]), "RUST_BACKTRACE": "0"}
    rc, out, wall, to = run_cmd(cmd, mdir, env=env, timeout=timeout, mem_gb=None)
    res = {}
    for t in test_names:
        m = re.search(r"test \S*" + re.escape(t) + r" \.\.\. (\w+)", out)
        # with --nocapture the "test x ... " line may be split by output; fall back on summary
        status = m.group(1) if m else None
        if status is None:
            if re.search(r"^\s+\S*" + re.escape(t) + r"\s*$", out, re.M) and "failures:" in out:
                status = "FAILED"
        res[t] = status
    return res, strip_warnings(out)


# ---------------------------------------------------------------------------


def write_json(path, obj):
    os.makedirs(os.path.dirname(path), exist_ok=True)
    tmp = path + ".tmp"
    with open(tmp, "w") as f:
        json.dump(obj, f, indent=1, sort_keys=False)
        f.write("\n")
    os.replace(tmp, path)


# ---------------------------------------------------------------------------
# counterexample extraction straight from CBMC (the goto binary Kani built and instrumented for the verdict run),
# WITH formula slicing.  Kani's own concrete-playback mode switches slicing off, which made some harnesses need
# > 57 GB; this path needs about what the verdict run needs.  The trace is read the way Kani's driver reads it:
# every return value of `kani::any_raw_internal::<T>` is one deterministic value (little-endian bytes).

CBMC_FLAGS = ["--no-malloc-may-fail", "--no-undefined-shift-check", "--no-signed-overflow-check", "--nan-check",
              "--no-self-loops-to-assumptions", "--no-pointer-primitive-check", "--object-bits", "16", "--sat-solver", "cadical", "--slice-formula"]


def find_goto_binary(mdir, harness):
    import glob
    best = None
    for mf in glob.glob(os.path.join(mdir, "target", "kani", "**", "*kani-metadata.json"), recursive=True):
        try:
            md = json.load(open(mf))
        except Exception:
            continue
        for h in md.get("proof_harnesses", []):
            if h.get("pretty_name") == harness:
                out = h["goto_file"].replace(".symtab.out", ".out")
                if os.path.exists(out):
                    cand = (os.path.getmtime(out), out, h["attributes"].get("unwind_value"))
                    if best is None or cand[0] > best[0]:
                        best = cand
    return best


def cbmc_counterexample(mdir, harness, keys, timeout=2400, mem_gb=40):
    """Returns list of (check_description, test_name, source) like extract_playback_tests, or [] ."""
    found = find_goto_binary(mdir, harness)
    if not found:
        return [], "goto binary not found"
    _, gb, unwind = found
    cmd = ["cbmc"] + CBMC_FLAGS + (["--unwind", str(unwind)] if unwind else []) + [gb, "--trace", "--json-ui"]
    outp = os.path.join(mdir, "ce-" + hashlib.sha256(harness.encode()).hexdigest()[:8] + ".json")
    t0 = time.time()
    try:
        with open(outp, "w") as fo:
            subprocess.run(cmd, cwd=mdir, stdout=fo, stderr=subprocess.DEVNULL, timeout=timeout, preexec_fn=_limit(mem_gb))
    except subprocess.TimeoutExpired:
        return [], "cbmc trace run timed out"
    try:
        data = json.load(open(outp))
    except Exception as ex:
        return [], f"unreadable cbmc output: {ex}"
    finally:
        try:
            os.remove(outp)
        except OSError:
            pass
    results = []
    for item in data:
        if isinstance(item, dict) and "result" in item:
            results = item["result"]
    short = harness.split("::")[-1]
    tests = []
    for r in results:
        if r.get("status") != "FAILURE" or "trace" not in r:
            continue
        desc = r.get("description", "")
        k = fail_key({"description": desc, "category": "assertion", "function": r.get("sourceLocation", {}).get("function", "")})
        if not any(k == nk or (not re.match(r"^C\d\d", nk) and nk.split("@")[0].split(":", 1)[-1] in desc) for nk in keys):
            continue
        vals = []
        SIZES = {"u8": 1, "i8": 1, "bool": 1, "u16": 2, "i16": 2, "u32": 4, "i32": 4, "char": 4, "u64": 8, "i64": 8, "usize": 8, "isize": 8, "u128": 16, "i128": 16}
        open_call = False
        arr_start, arr_n, arr_esz = None, 0, 1
        for st in r["trace"]:
            typ = st.get("stepType")
            if typ == "function-call":
                dn = (st.get("function") or {}).get("displayName", "")
                ma = re.match(r"kani::any_raw_array::<([a-z0-9]+), (\d+)>", dn)
                if ma:
                    # arrays of primitives are produced by ONE call on the solver side but replayed element by element
                    esz = SIZES.get(ma.group(1), 1)
                    arr_start, arr_n, arr_esz = len(vals), int(ma.group(2)), esz
                    vals.extend([[0] * esz for _ in range(arr_n)])
                    open_call = False
                    continue
                if dn.startswith("kani::any_raw_internal"):
                    # one deterministic value per call; a value the slicer dropped from the trace is irrelevant to the
                    # failing property and replayed as zero, keeping later values aligned
                    m = re.search(r"<([a-z0-9]+)>", dn)
                    vals.append([0] * SIZES.get(m.group(1) if m else "", 1))
                    open_call = True
                continue
            if typ != "assignment":
                continue
            fn = st.get("sourceLocation", {}).get("function", "")
            lhs = st.get("lhs", "")
            if fn.startswith("kani::any_raw_array") and arr_start is not None:
                # the array is assigned element by element: `var_0[i]` / `...return_value...[i]`
                mi = re.search(r"\[(\d+)[a-z]*\]$", lhs)
                b = st.get("value", {}).get("binary")
                if mi and b is not None and int(mi.group(1)) < arr_n:
                    n = int(b, 2)
                    vals[arr_start + int(mi.group(1))] = [(n >> (8 * i)) & 0xff for i in range(arr_esz)]
                else:
                    for el in st.get("value", {}).get("elements", []) or []:
                        b2 = (el.get("value") or {}).get("binary")
                        idx = el.get("index")
                        if b2 is not None and idx is not None and idx < arr_n:
                            n = int(b2, 2)
                            vals[arr_start + idx] = [(n >> (8 * i)) & 0xff for i in range(arr_esz)]
                continue
            if not fn.startswith("kani::any_raw_internal") or not lhs.startswith("goto_symex$$return_value"):
                continue
            b = st.get("value", {}).get("binary")
            if b is None:
                continue
            n = int(b, 2)
            bytes_le = [(n >> (8 * i)) & 0xff for i in range(max(1, len(b) // 8))]
            if open_call and vals:
                vals[-1] = bytes_le
                open_call = False
            else:
                vals.append(bytes_le)
        if not vals:
            continue
        hsh = hashlib.sha256((harness + k + str(vals)).encode()).hexdigest()[:16]
        name = f"kani_concrete_playback_{short}_{int(hsh, 16) % (10**18)}"
        body = ",\n".join("        vec![" + ", ".join(str(x) for x in v) + "]" for v in vals)
        src = (f"/// Counterexample of the solver for harness `{harness}`\n///\n/// Check for `assertion`: \"{desc}\"\n"
               f"#[test]\nfn {name}() {{\n    let concrete_vals: Vec<Vec<u8>> = vec![\n{body}\n    ];\n"
               f"    kani::concrete_playback_run(concrete_vals, {short});\n}}\n")
        tests.append((desc, name, src))
    return tests, f"cbmc trace run {time.time()-t0:.0f} s"
