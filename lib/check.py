#!/usr/bin/env python3
"""bin/check <ID> [--tier quick|thorough] [--replay PATH] [--keep]"""
import os, sys, json, time, argparse, hashlib, re

HERE = os.path.dirname(os.path.abspath(__file__))
VERIF = os.path.dirname(HERE)
sys.path.insert(0, HERE)
import mirror as mirror_mod
import runner as R
from runner import log
import props as P


def short(h):
    return h.split("::")[-1]


def module_of(h):
    return h.split("::")[-2]


def main():
    ap = argparse.ArgumentParser()
    ap.add_argument("prop")
    ap.add_argument("--tier", default=os.environ.get("VERIF_TIER", "quick"), choices=["quick", "thorough"])
    ap.add_argument("--replay", default=None)
    ap.add_argument("--keep", action="store_true")
    ap.add_argument("--only", default=None, help="debug: restrict to harnesses matching this filter")
    ap.add_argument("--no-replay", action="store_true", help="debug: skip native replay")
    a = ap.parse_args()
    pid = a.prop.upper()
    if pid not in P.PROPS:
        print(f"unknown property {pid}")
        return 2
    spec = P.PROPS[pid]
    seed = int(os.environ.get("VERIF_SEED", "0") or 0)
    if a.replay:
        return do_replay(pid, spec, a.replay, a.keep)
    if (a.only or a.no_replay) and "VERIF_EVIDENCE_DIR" not in os.environ:
        # debugging runs never overwrite the evidence of record
        os.environ["VERIF_EVIDENCE_DIR"] = "/tmp/verif-debug-evidence"
    t0 = time.time()
    tier = a.tier
    tier_cfgs = ["verif_thorough"] if tier == "thorough" else []
    extra = {}
    ctx = {"tier": tier, "seed": seed, "notes": [], "pre": {}}
    mdir, appended = mirror_mod.make_mirror(keep=a.keep)
    log(f"[{pid}] mirror {mdir} (repo {mirror_mod.repo_head()}, tree {mirror_mod.sha_tree(mirror_mod.REPO)})")
    if spec.get("pre"):
        ok = spec["pre"](mdir, ctx)
        if not ok:
            print(f"INCONCLUSIVE property={pid} pre-stage failed: {ctx.get('pre_error')}")
            write_evidence(pid, spec, tier, seed, t0, [], {}, [], [], ["pre-stage failed: %s" % ctx.get("pre_error")], ctx)
            return 2
    groups = spec["groups"](tier, seed, ctx) if callable(spec["groups"]) else spec["groups"]
    results = []
    if a.only:
        groups = groups[:1]
        groups[0].filters = [a.only]
    for g in groups:
        log(f"[{pid}] group {g.name}: cfgs={g.cfgs + tier_cfgs} features={g.features} jobs={g.jobs}")
        r = R.run_group(mdir, g, tier_cfgs)
        r["_group"] = g
        results.append(r)
        log(f"[{pid}] group {g.name}: {len(r['harnesses'])} harnesses, wall {r['wall_s']} s, rc {r['rc']}")
    known = R.load_known()
    violations, known_hits, inconclusive, undecided = [], [], [], []
    harness_rows = {}
    post = spec.get("classify")
    for r in results:
        g = r["_group"]
        if r["infra_error"]:
            inconclusive.append(f"group {g.name}: {r['infra_error']}\n{r.get('tail','')}")
            continue
        if not r["harnesses"]:
            inconclusive.append(f"group {g.name}: no harness ran\n{r.get('tail','')}")
        for h, info in sorted(r["harnesses"].items()):
            row = classify(pid, h, info, known)
            row["group"] = g.name
            harness_rows[h] = row
            if row["verdict"] == "inconclusive":
                if tier == "thorough" and row.get("resource"):
                    # thorough tier: the per-harness time/memory cap is part of the stated bound.  A query that runs into
                    # it decided nothing; it is reported as not explored (never as a pass) and does not change the exit code.
                    row["verdict"] = "undecided"
                    undecided.append(f"{short(h)}: {row['why']}")
                else:
                    inconclusive.append(f"{short(h)}: {row['why']}")
    # new failures -> replay
    to_replay = [(h, row) for h, row in harness_rows.items() if row["new_keys"]]
    for h, row in harness_rows.items():
        for k, kf in row["known_keys"]:
            known_hits.append((h, k, kf))
    replay_records = []
    if to_replay:
        gmap = {r["_group"].name: r["_group"] for r in results}
        # stage 1 (parallel): counterexample extraction by the solver; stage 2: one native playback build+run
        from concurrent.futures import ThreadPoolExecutor
        cap = int(os.environ.get("VERIF_MAX_REPLAYS", "12"))
        if len(to_replay) > cap:
            for h, row in to_replay[cap:]:
                inconclusive.append(f"{short(h)}: {row['new_keys']} failed but replay budget ({cap}) exhausted; not replayed")
            to_replay = to_replay[:cap]
        if a.no_replay:
            recs = [{"property": pid, "harness": h, "keys": row["new_keys"], "reproduced": False, "path": None, "mode": "solver-only",
                     "group_name": row["group"], "tests": [], "file": None, "module": module_of(h), "group": {"cfgs": [], "features": []}} for h, row in to_replay]
        else:
            with ThreadPoolExecutor(max_workers=3) as ex:
                futs = [ex.submit(extract_ce, pid, spec, mdir, gmap[row["group"]], h, row, tier_cfgs) for h, row in to_replay]
                recs = [f.result() for f in futs]
        native_stage(pid, mdir, recs, gmap, tier_cfgs, skip_native=a.no_replay)
        # second attempt for CPU harnesses: a counterexample whose addresses the replay image cannot realise
        # (I/O, echo RAM) is re-extracted under the extra assumption that every bus address is backed by memory
        if spec.get("realizable_retry") and not a.no_replay:
            retry = [r for r in recs if not r["reproduced"] and r["mode"] == "playback"]
            if retry:
                log(f"[{pid}] {len(retry)} counterexample(s) not realisable natively: second extraction with --cfg verif_realizable")
                rmap = {(h, tuple(row["new_keys"])): (h, row) for h, row in to_replay}
                cfg2 = list(tier_cfgs) + ["verif_realizable"]
                with ThreadPoolExecutor(max_workers=3) as ex:
                    futs = [ex.submit(extract_ce, pid, spec, mdir, gmap[r["group_name"]], r["harness"], {"new_keys": r["keys"]}, cfg2) for r in retry]
                    recs2 = [f.result() for f in futs]
                native_stage(pid, mdir, recs2, gmap, cfg2, skip_native=False)
                for old, new in zip(retry, recs2):
                    if new["reproduced"]:
                        new["first_attempt"] = {"why": old.get("why"), "native": old.get("native")}
                        recs[recs.index(old)] = new
        for rec in recs:
            finish_replay_record(pid, rec)
            replay_records.append(rec)
            if rec["reproduced"]:
                violations.append(rec)
            else:
                inconclusive.append(f"{short(rec['harness'])}: counterexample for {rec['keys']} did not reproduce natively ({rec.get('why','')})")
    # violations established by the pre-stage (concrete native comparisons on the real code, e.g. block composition)
    for pv in ctx.get("pre_violations", []):
        if spec.get("key_prefix") and not pv["key"].startswith(spec["key_prefix"] + "."):
            continue
        hsh = hashlib.sha256(pv["key"].encode()).hexdigest()[:8]
        path = os.path.join(os.environ.get("VERIF_REPLAY_DIR", os.path.join(VERIF, "replays")), f"{pid}-pre-{hsh}.json")
        R.write_json(path, {"property": pid, "harness": "pre-stage", "keys": [pv["key"]], "mode": "native", "what": pv["what"], "detail": pv["detail"], "reproduced": True})
        violations.append({"path": path, "keys": [pv["key"]], "harness": "pre::stage"})
    # report
    seen = set()
    for h, k, kf in known_hits:
        ident = (kf.get("id") or kf.get("what"), )
        line = f"KNOWN-FINDING: property={pid} {kf.get('what','')} [{short(h)}:{k}]"
        print(line)
    for v in violations:
        print(f"VIOLATION property={pid} replay={v['path']}")
        for k in v["keys"]:
            print(f"  failing obligation: {short(v['harness'])}:{k}")
    for i in inconclusive:
        print(f"INCONCLUSIVE property={pid} {i}")
    for u in undecided:
        print(f"UNDECIDED property={pid} {u} -- outside what this run explored")
    ctx.setdefault("coverage_extra", {})["queries_undecided_within_budget"] = undecided
    write_evidence(pid, spec, tier, seed, t0, results, harness_rows, violations, known_hits, inconclusive, ctx)
    n_ok = sum(1 for r in harness_rows.values() if r["verdict"] == "pass")
    print(f"[{pid}] tier={tier} harnesses={len(harness_rows)} pass={n_ok} known-finding-hits={len(known_hits)} "
          f"violations={len(violations)} inconclusive={len(inconclusive)} undecided={len(undecided)} wall={time.time()-t0:.0f}s")
    if violations:
        return 1
    if inconclusive:
        return 2
    return 0


def classify(pid, h, info, known):
    """verdict: pass | witness-ok | fail | inconclusive"""
    row = {"verdict": "pass", "why": "", "new_keys": [], "known_keys": [], "failed": info["failed"],
           "duration_ms": info.get("duration_ms", 0), "stats": info.get("stats", {}), "n_checks": info["n_checks"],
           "covers": info["covers"], "tags_ok": info.get("tags_ok", [])}
    name = short(h)
    st = info["status"]
    is_witness = name.endswith("_must_fail")
    if is_witness:
        keys = [R.fail_key(f) for f in info["failed"]]
        if st == "Failure" and any(".witness" in k for k in keys):
            row["verdict"] = "witness-ok"
        else:
            row["verdict"] = "inconclusive"
            row["why"] = f"vacuity witness did not fail (status {st}): harness assumptions may be unsatisfiable"
        return row
    if info["unwind_failed"]:
        row["verdict"] = "inconclusive"
        row["why"] = "unwinding assertion failed (bound too small for this tree)"
        return row
    if st == "Success" and name.endswith("_terminates"):
        # #[kani::should_panic] harness: Success means every path ended in the expected controlled panic
        return row
    if st == "Success":
        bad = [c for c, s in info["covers"].items() if s != "Satisfied" and c == "reached"]
        row["observations"] = [c for c, s in info["covers"].items() if s == "Satisfied" and c != "reached"]
        if bad or "reached" not in info["covers"]:
            row["verdict"] = "inconclusive"
            row["why"] = f"reachability cover not satisfied: {bad or 'none present'}"
        elif info["undetermined"]:
            row["verdict"] = "inconclusive"
            row["why"] = f"{info['undetermined']} undetermined checks"
        return row
    if st == "Failure" and info["failed"]:
        keys = []
        for f in info["failed"]:
            k = R.fail_key(f)
            if k not in keys:
                keys.append(k)
        inc = [k for k in keys if any(k.startswith(x) for x in P.PROPS[pid].get("inconclusive_keys", []))]
        if inc:
            row["verdict"] = "inconclusive"
            row["why"] = f"model limitation: {inc}"
            return row
        pref = P.PROPS[pid].get("key_prefix")
        if pref:
            # harness set shared with a sibling property: only this property's obligations (and real-code panics) count here
            keys = [k for k in keys if k.startswith(pref + ".") or not re.match(r"^C\d\d", k)]
            if not keys:
                row["verdict"] = "pass"
                row["why"] = "only sibling-property obligations failed"
                return row
        for k in keys:
            kf = R.match_known(known, pid, h, k)
            if kf:
                row["known_keys"].append((k, kf))
            else:
                row["new_keys"].append(k)
        row["verdict"] = "fail" if row["new_keys"] else "known"
        return row
    row["verdict"] = "inconclusive"
    row["resource"] = True
    et = info.get("err", {})
    row["why"] = f"status {st} without failed checks ({et.get('error_type','?')}/{et.get('exit_status','?')}): timeout, out of memory or solver error"
    return row


def extract_ce(pid, spec, mdir, g, h, row, tier_cfgs):
    keys = row["new_keys"]
    rec = {"property": pid, "harness": h, "keys": keys, "reproduced": False, "path": None, "mode": "playback", "group_name": g.name}
    for pat, m in spec.get("replay", {}).items():
        if pat == "*" or re.fullmatch(pat.replace("*", ".*"), short(h)):
            rec["mode"] = m
            if pat != "*":
                break
    log(f"[{pid}] counterexample extraction for {short(h)} keys={keys} (replay mode {rec['mode']})")
    # primary: CBMC trace on the goto binary of the verdict run (slicing on); fallback: Kani's own concrete playback
    tests, note = R.cbmc_counterexample(mdir, h, keys)
    rec["ce_source"] = "cbmc --trace on the verdict run's goto binary (" + note + ")"
    if not tests:
        tests, out = R.kani_counterexample(mdir, g, h, tier_cfgs)
        rec["ce_source"] = "cargo kani --concrete-playback=print (after: " + note + ")"
    chosen = []
    for chk, name, src in tests:
        k = R.fail_key({"description": chk.strip('"') if "concat" in chk else chk, "category": "assertion", "function": ""})
        for nk in keys:
            if k == nk or (not re.match(r"^C\d\d", nk) and nk.split("@")[0].split(":", 1)[-1] in chk):
                chosen.append((chk, name, src))
                break
    if not chosen:
        chosen = tests
    rec["tests"] = [{"check": c, "name": n, "source": s} for c, n, s in chosen]
    rec["file"] = locate_harness_file(mdir, h)
    rec["module"] = module_of(h)
    rec["group"] = {"cfgs": g.cfgs + list(tier_cfgs), "features": g.features}
    return rec


def native_stage(pid, mdir, recs, gmap, tier_cfgs, skip_native=False):
    """Insert all generated tests, build once per group, run natively."""
    by_group = {}
    for rec in recs:
        if rec["mode"] == "solver-only" or skip_native:
            rec["reproduced"] = True
            rec["native"] = "not run natively: the harness depends on solver-side stubs (DESIGN.md 2.2); the counterexample is the solver's"
            continue
        if not rec["tests"]:
            rec["why"] = "Kani produced no concrete playback test"
            continue
        ok = R.insert_tests(mdir, rec["file"], rec["module"], "\n".join(t["source"] for t in rec["tests"])) if rec["file"] else False
        if not ok:
            rec["why"] = "could not insert playback test"
            continue
        by_group.setdefault(rec["group_name"], []).append(rec)
    for gname, rs in by_group.items():
        g = gmap[gname]
        names = [t["name"] for r in rs for t in r["tests"]]
        log(f"[{pid}] native replay of {len(names)} counterexample(s) (group {gname})")
        # one test process per record so that an abort (extern \"sysv64\" panic) is attributed correctly
        for r in rs:
            tn = [t["name"] for t in r["tests"]]
            stat, nout = R.native_playback(mdir, g, tn, tier_cfgs)
            fails = re.findall(r"VERIF-FAIL (\S+)", nout)
            panics = re.findall(r"panicked at ([^\n]*\n[^\n]*)", nout)
            aborted = "SIGABRT" in nout or "panic in a function that cannot unwind" in nout or "process didn't exit successfully" in nout
            r["native"] = {"tests": stat, "verif_fail_tags": sorted(set(fails)), "panics": panics[:6], "aborted": aborted}
            want_tags = [k for k in r["keys"] if re.match(r"^C\d\d", k)]
            hit = [t for t in want_tags if t in fails]
            real_panic = [k for k in r["keys"] if not re.match(r"^C\d\d", k)]
            def panic_matches(k):
                # key = category:description@function ; native text must contain the description's leading phrase
                desc = k.split(":", 1)[-1].rsplit("@", 1)[0]
                phrase = desc.split(":")[0].strip().lower()
                return any(phrase in p.lower() for p in panics) or (phrase in nout.lower())
            misaligned = ("det vals" in nout) and not fails
            if hit or any(panic_matches(k) for k in real_panic):
                r["reproduced"] = True
            elif misaligned and not r.get("kani_playback_tried"):
                # the values read from the sliced CBMC trace did not line up with the harness's kani::any() calls
                # (large symbolic arrays whose irrelevant elements the slicer drops): fall back to Kani's own playback
                r["kani_playback_tried"] = True
                log(f"[{pid}] trace values misaligned for {short(r['harness'])}: falling back to Kani concrete playback")
                tests, _out = R.kani_counterexample(mdir, g, r["harness"], tier_cfgs)
                chosen = [(c, n, s_) for c, n, s_ in tests if any(R.fail_key({"description": c.strip('"') if "concat" in c else c, "category": "assertion", "function": ""}) == k for k in r["keys"])] or tests
                r["tests"] = [{"check": c, "name": n, "source": s_} for c, n, s_ in chosen]
                r["ce_source"] = "cargo kani --concrete-playback=print (trace values were misaligned)"
                if chosen and R.insert_tests(mdir, r["file"], r["module"], "\n".join(t["source"] for t in r["tests"])):
                    stat, nout = R.native_playback(mdir, g, [t["name"] for t in r["tests"]], tier_cfgs)
                    fails = re.findall(r"VERIF-FAIL (\S+)", nout)
                    r["native"] = {"tests": stat, "verif_fail_tags": sorted(set(fails)), "panics": re.findall(r"panicked at ([^\n]*\n[^\n]*)", nout)[:6]}
                    if [t for t in want_tags if t in fails]:
                        r["reproduced"] = True
                    else:
                        r["why"] = "native run of the counterexample did not hit the failing obligation"
                        r["native"]["tail"] = nout[-1500:]
                else:
                    r["why"] = "Kani produced no concrete playback test"
            else:
                r["why"] = "native run of the counterexample did not hit the failing obligation"
                r["native"]["tail"] = nout[-1500:]


def finish_replay_record(pid, rec):
    hsh = hashlib.sha256((rec["harness"] + "|".join(rec["keys"])).encode()).hexdigest()[:8]
    path = os.path.join(os.environ.get("VERIF_REPLAY_DIR", os.path.join(VERIF, "replays")), f"{pid}-{short(rec['harness'])}-{hsh}.json")
    rec["path"] = path
    rec["repo_tree"] = mirror_mod.sha_tree(mirror_mod.REPO)
    R.write_json(path, rec)


def locate_harness_file(mdir, h):
    full = h.split("::")[:-1]   # the harness module itself may be a file module (src/verif/jit_gen.rs) ...
    parts = h.split("::")[:-2]  # ... or an inline module appended to its parent's file
    fbase = os.path.join(mdir, "src", *full)
    base = os.path.join(mdir, "src", *parts)
    for cand in (fbase + ".rs", os.path.join(fbase, "mod.rs"), base + ".rs", os.path.join(base, "mod.rs")):
        if os.path.exists(cand):
            return os.path.relpath(cand, mdir)
    if not parts:
        return "src/main.rs"
    return None


def do_replay(pid, spec, path, keep):
    rec = json.load(open(path))
    mdir, _ = mirror_mod.make_mirror(keep=keep)
    rctx = {"tier": "quick", "seed": 0, "notes": [], "pre": {}}
    if spec.get("pre"):
        spec["pre"](mdir, rctx)
    if rec.get("mode") == "native":
        now = [pv["key"] for pv in rctx.get("pre_violations", [])]
        print(f"replay (native pre-stage comparison): failing now: {now}")
        if any(k in now for k in rec["keys"]):
            print(f"VIOLATION property={pid} replay={path}")
            return 1
        return 0
    g = R.Group("replay", [c for c in rec["group"]["cfgs"]], rec["group"]["features"])
    tests = rec.get("tests", [])
    if rec.get("mode") == "solver-only" or not tests:
        # re-pose the solver query for that harness
        r = R.run_group(mdir, R.Group("replay", g.cfgs, g.features, jobs=1, filters=[short(rec["harness"])]), [])
        info = r["harnesses"].get(rec["harness"])
        keys = [R.fail_key(f) for f in (info or {}).get("failed", [])]
        still = [k for k in rec["keys"] if k in keys]
        print(f"replay (solver query) {short(rec['harness'])}: failing now: {keys}")
        if still:
            print(f"VIOLATION property={pid} replay={path}")
            return 1
        return 0
    ok = R.insert_tests(mdir, rec["file"], rec["module"], "\n".join(t["source"] for t in tests))
    if not ok:
        print("cannot insert tests")
        return 2
    stat, nout = R.native_playback(mdir, g, [t["name"] for t in tests], [])
    fails = sorted(set(re.findall(r"VERIF-FAIL (\S+)", nout)))
    print(f"native replay of {short(rec['harness'])}: tests={stat} failing tags={fails}")
    want = [k for k in rec["keys"] if re.match(r"^C\d\d", k)]
    if any(t in fails for t in want) or (len(want) < len(rec["keys"]) and any(s == "FAILED" for s in stat.values())):
        print(f"VIOLATION property={pid} replay={path}")
        return 1
    print("counterexample no longer reproduces on the current tree")
    return 0


def write_evidence(pid, spec, tier, seed, t0, results, rows, violations, known_hits, inconclusive, ctx):
    evaluations = sum(1 for r in rows.values() if r["verdict"] in ("pass", "known", "fail", "witness-ok"))
    tags = set()
    for h, r in rows.items():
        if r["verdict"] in ("pass", "known", "fail"):
            for t in r.get("tags_ok", []):
                tags.add((short(h), t))
            if not r.get("tags_ok") and r["verdict"] == "pass":
                # harness whose obligation is Kani's own checks (no panic / bounds / overflow): one obligation
                tags.add((short(h), "no-panic/no-overflow/in-bounds"))
    n_checks = sum(r["n_checks"] for r in rows.values())
    solver_s = sum(float(r["stats"].get("runtime_decision_procedure_s", 0) or 0) for r in rows.values())
    symex_s = sum(float(r["stats"].get("runtime_symex_s", 0) or 0) for r in rows.values())
    vccs = sum(int(r["stats"].get("vccs_generated", 0) or 0) for r in rows.values())
    vccs_rem = sum(int(r["stats"].get("vccs_remaining", 0) or 0) for r in rows.values())
    samples = []
    for h, r in list(sorted(rows.items()))[:400]:
        samples.append({"harness": short(h), "verdict": r["verdict"], "cbmc_checks": r["n_checks"],
                        "obligations_proved": len(r.get("tags_ok", [])),
                        "failed": sorted({R.fail_key(f) for f in r["failed"]}),
                        "observations": r.get("observations", []),
                        "wall_ms": r["duration_ms"],
                        "vccs": r["stats"].get("vccs_generated"), "solver_s": r["stats"].get("runtime_decision_procedure_s")})
    lvl = spec["level"]
    bounds = spec.get("bounds", {})
    cov = {
        "evaluations": max(evaluations, 0),
        "distinct_nontrivial": len(tags),
        "rule": "evaluations = solver queries (Kani harnesses) decided by CBMC in this run; distinct_nontrivial = distinct "
                "(harness, tagged obligation) pairs proved for all inputs within the bound, in harnesses whose reachability "
                "cover was satisfied (non-vacuous); samples = one record per harness",
        "samples": samples if samples else [{"note": "no harness ran"}],
        "exhaustive": False,
        "technique": "bounded model checking of the real Rust code (Kani 0.68 / CBMC 6.11, CaDiCaL): symbolic inputs, "
                     "assertions against a reference model, SAT verdict over all values within the unwinding bounds",
        "functions_encoded": spec.get("functions", []),
        "bounds": bounds.get(tier, bounds.get("quick", "")),
        "outside_the_claim": spec.get("outside", []),
        "stubs_and_cuts": spec.get("stubs", []),
        "queries_discharged": sum(1 for r in rows.values() if r["verdict"] == "pass"),
        "queries_failed_known": sum(1 for r in rows.values() if r["verdict"] == "known"),
        "queries_failed_new": sum(1 for r in rows.values() if r["verdict"] == "fail"),
        "queries_inconclusive": sum(1 for r in rows.values() if r["verdict"] == "inconclusive"),
        "vacuity_witnesses_ok": sum(1 for r in rows.values() if r["verdict"] == "witness-ok"),
        "cbmc_checks_total": n_checks,
        "vccs_generated": vccs, "vccs_after_simplification": vccs_rem,
        "solver_time_s": round(solver_s, 2), "symex_time_s": round(symex_s, 2),
        "groups": [{"name": r["group"], "wall_s": r["wall_s"], "rustflags": r.get("rustflags"), "infra_error": r["infra_error"]} for r in results],
        "known_findings_hit": sorted({(kf.get("id") or kf.get("what", "")) for _, _, kf in known_hits}),
        "counterexamples_replayed": len(violations),
        "inconclusive": inconclusive[:20],
        "repo_tree_sha": mirror_mod.sha_tree(mirror_mod.REPO),
        "repo_head": mirror_mod.repo_head(),
    }
    if lvl == "translation_validation":
        cov["programs"] = max(ctx.get("programs", evaluations), 0)
        cov["disagreements_checked"] = len(violations) + len(known_hits)
    cov.update(ctx.get("coverage_extra", {}))
    ev = {
        "property_id": pid, "tier": tier, "seed": seed, "level": lvl, "coverage": cov,
        "assumptions": spec.get("assumptions", []) + ["trusted base: Kani MIR->GOTO translation, CBMC, CaDiCaL, the harness-side reference models"],
        "wall_s": round(time.time() - t0, 1), "violations": len(violations),
    }
    R.write_json(os.path.join(os.environ.get("VERIF_EVIDENCE_DIR", os.path.join(VERIF, "evidence")), f"{pid}.json"), ev)


if __name__ == "__main__":
    sys.exit(main())
