"""Per-property specifications for bin/check."""
from runner import Group

PROPS = {}

PROPS["C13"] = dict(
    level="model_checking",
    groups=lambda tier, seed, ctx: [Group("c13", ["verif_c13"], jobs=10, harness_timeout=900 if tier == "quick" else 3600, mem_gb=16)],
    functions=["devices::timer::Timer::{run_cycles,set_timer_control,increment_counter,reset_divider,get_divider,"
               "set_counter,get_counter,set_modulo,get_modulo,get_timer_control}", "timing::ClockCycles::as_u32",
               "devices::io::IO::{set_byte,get_byte,run_clock_cycles} (routing harness)"],
    bounds={"quick": "arbitrary reachable Timer state (16-bit phase, TIMA, TMA, TAC, power-on or post-TAC-write masks); "
                     "one clock (inductive step); batches n<=32 clocks; batch split a+b<=16; disabled fast path n<2^24; "
                     "periods 16 and 64 queried directly",
            "thorough": "as quick plus batches n<=96, split a+b<=48, period 256"},
    outside=["enabled-path batches larger than the stated n except through the one-clock step + batch-split induction",
             "whether a DIV write may itself tick TIMA (statement does not fix it)"],
    stubs=[],
    assumptions=["Timer state ranges over: power-on masks, or masks consistent with the last TAC value (the only states the public API produces)"],
    replay={"*": "playback"},
)
