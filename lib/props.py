"""Per-property specifications for bin/check."""
from runner import Group

PROPS = {}

PROPS["C13"] = dict(
    level="model_checking",
    groups=lambda tier, seed, ctx: [Group("c13", ["verif_c13"], jobs=10, harness_timeout=900 if tier == "quick" else 3600, mem_gb=16)],
    functions=["devices::timer::Timer::{run_cycles,set_timer_control,increment_counter,reset_divider,get_divider,"
               "set_counter,get_counter,set_modulo,get_modulo,get_timer_control}", "timing::ClockCycles::as_u32",
               "devices::io::IO::{set_byte,get_byte,run_clock_cycles} (routing harness)"],
    bounds={"quick": "arbitrary reachable Timer state (16-bit phase, TIMA, TMA, TAC, power-on or post-TAC-write masks); "
                     "one clock (inductive step); batches n<=32 clocks; batch split a+b<=16; disabled fast path n<2^24; "
                     "periods 16 and 64 queried directly",
            "thorough": "as quick plus batches n<=96, split a+b<=48, period 256"},
    outside=["enabled-path batches larger than the stated n except through the one-clock step + batch-split induction",
             "whether a DIV write may itself tick TIMA (statement does not fix it)"],
    stubs=[],
    assumptions=["Timer state ranges over: power-on masks, or masks consistent with the last TAC value (the only states the public API produces)"],
    replay={"*": "playback"},
)

PROPS["C17"] = dict(
    level="model_checking",
    groups=lambda tier, seed, ctx: [Group("c17", ["verif_c17"], jobs=8, harness_timeout=600, mem_gb=16)],
    functions=["devices::joypad::Joypad::{press_button,release_button,set_value,get_value,get_interrupt,new}",
               "devices::io::IO::{set_byte,get_byte}(0xFF00) and IO::run_clock_cycles collection (routing harness)"],
    bounds={"quick": "complete transition relation: arbitrary Joypad state (2x4 buttons, both selects, pending latch) x every single action "
                     "(press/release of each of 8 buttons, all 256 P1 writes); one action per query (relation is on the full state, so sequences follow by induction)",
            "thorough": "same (the relation is already complete)"},
    outside=["P1 bits 6-7 (excluded by the property)"],
    stubs=[], assumptions=["button nibbles are 4-bit (the only values press/release can produce)"],
    replay={"*": "playback"},
)

CTOR_STUBS = ["system::get_rom_buffer -> zeroed buffer of the requested size (mmap contract); harnesses poke kani::any() bytes at the cells the reference selects",
              "mem::create_buffer -> zeroed buffer of the requested size without the push loop",
              "LCD::new -> same value without the 23 040-iteration push loop"]

PROPS["C11"] = dict(
    level="model_checking",
    groups=lambda tier, seed, ctx: [Group("c11", ["verif_c11"], jobs=12, harness_timeout=900, mem_gb=16)],
    functions=["mem::{memory_read_byte,memory_write_byte,memory_read_word,memory_write_word}", "mem::MemoryAreas::with_rom_file",
               "cart::Header::{get_rom_size_bytes,get_rom_bank_count,get_ram_size_bytes,create_cart_state}",
               "cart::{NullCartState,MBC1CartState,MBC3CartState}::{write_rom,get_rom_bank,get_ram_bank}", "devices::io::IO::{set_byte,get_byte}"],
    bounds={"quick": "every supported cartridge type x all 256 ROM-size codes x all 256 RAM-size codes (buffers sized by the real header tables) x "
                     "banking registers set by one guest write of an arbitrary value into each of the four controller register windows (= every register state) x "
                     "all 65536 addresses x {byte read, byte write, word read, word write} x all values; Kani's panic / bounds / overflow checks are the assertion",
            "thorough": "same"},
    outside=["cartridge types the loader rejects (panic at load = controlled termination, C19)", "allocation failure"],
    stubs=CTOR_STUBS + ["Stdout::write/flush -> recorder (serial port output is C18's subject)"],
    assumptions=["device state (timer, LCD, joypad) is the power-on state: no bus access path indexes memory with it"],
    replay={"*": "playback"},
)

PROPS["C12"] = dict(
    level="model_checking",
    groups=lambda tier, seed, ctx: [Group("c12", ["verif_c12"], jobs=6, harness_timeout=1500 if tier == "quick" else 5400, mem_gb=24)],
    functions=["cart::{MBC1CartState,MBC3CartState,NullCartState}::{write_rom,get_rom_bank,get_ram_bank}", "cart::Header::{create_cart_state,get_rom_size_bytes,get_ram_size_bytes}",
               "mem::{memory_write_byte,memory_read_byte,get_executable_memory_slice}", "mem::MemoryAreas::{with_rom_file,get_rom_bank}"],
    bounds={"quick": "each controller family x all 256 ROM-size codes x all 256 RAM-size codes (real buffers; arbitrary bytes poked at the cells the reference selects, zero elsewhere) x every sequence of 3 guest writes "
                     "(any address below 0x8000, any value; three relevant registers, so every register state and every order of reaching it) x every probe offset; "
                     "read at 0x4000+off, 0x0000+off, 0xA000+off and instruction-fetch view compared with the byte the reference controller selects",
            "thorough": "same with 5 writes"},
    outside=["RAM-enable gating (not in the statement)", "MBC3 RTC register selection (values >= 4 at 0x4000-0x5fff leave the RAM window unconstrained)",
             "MBC1 mode 1 with the upper bank bits set: both documented readings accepted at 0x4000-0x7fff", "addresses beyond the RAM actually present"],
    stubs=CTOR_STUBS + ["Stdout::write/flush -> recorder"],
    assumptions=[],
    replay={"*": "playback"},
)

PROPS["C10"] = dict(
    level="model_checking",
    groups=lambda tier, seed, ctx: [Group("c10", ["verif_c10"], jobs=10, harness_timeout=1500, mem_gb=16)],
    functions=["mem::{memory_read_byte,memory_write_byte,get_executable_memory_slice}", "mem::MemoryAreas::{with_rom_file,get_rom_bank,cart_ram_index}",
               "devices::io::IO::{set_byte,get_byte}", "devices::{timer,joypad,serial,video}: register accessors reached from IO", "cart::*::{write_rom,get_rom_bank,get_ram_bank}"],
    bounds={"quick": "one write (any of 65536 targets within the harness's target class, any value) followed by one read at any of 65536 addresses, compared with the read "
                     "of the same address before the write; each controller family; all ROM/RAM size codes; arbitrary banking registers; I/O read-back masks for all 128 "
                     "I/O offsets; fetch view over all of WRAM/HRAM (ROM fetch view is in C12). One step from an arbitrary banking state = inductive step over write histories",
            "thorough": "same"},
    outside=["device state other than power-on for the I/O read-back (timer/LCD phase): accessors do not depend on it", "serial port read side (excluded by the property)",
             "cartridge RAM cells beyond the RAM present (open bus by design, C11/C12)", "Core::with_code_block images (4 KiB WRAM): not a loadable configuration"],
    stubs=CTOR_STUBS + ["Stdout::write/flush -> recorder"],
    assumptions=["memory background is zero; the frame rule compares against the measured pre-state so contents do not matter"],
    replay={"*": "playback"},
)

PROPS["C16"] = dict(
    level="model_checking",
    groups=lambda tier, seed, ctx: [Group("c16", ["verif_c16"], jobs=8, harness_timeout=1500 if tier == "quick" else 7200, mem_gb=20)],
    functions=["mem::MemoryAreas::run_clock_cycles", "mem::memory_write_byte (0xff46 arm)", "mem::DMAState"],
    bounds={"quick": "arming from any in-progress state, all 256 pages; transaction contract from any (page, offset): batches of <= 8 bytes, and ANY batch size < 2^24 clocks "
                     "when <= 8 bytes remain; two-batch split a+b <= 8; idle engine any batch size. The contract is additive in the byte count, so longer transfers follow by induction on batches",
            "thorough": "plus batches of <= 18 bytes and a cross-check through the real bus ladder (page 0xC1, <= 2 bytes at offsets 0..=3, arbitrary probe address)"},
    outside=["CPU-side bus restrictions during DMA (not in the statement)", "what the copied bytes mean: reads/writes at those addresses are C10's subject (recording bus returns arbitrary values)"],
    stubs=CTOR_STUBS + ["mem::memory_read_byte / memory_write_byte -> recording bus (arbitrary read values, event log) in the transaction harnesses",
                        "IO::run_clock_cycles -> no-op (devices do not take part in the copy)"],
    assumptions=["batch sizes are multiples of 4 clocks (every caller passes machine cycles x 4)"],
    replay={"c16_txn_*": "solver-only", "c16_idle_*": "solver-only", "c16_batch_split": "solver-only", "*": "playback"},
)

PROPS["C18"] = dict(
    level="model_checking",
    groups=lambda tier, seed, ctx: [Group("c18", ["verif_c18"], features=["jit"], jobs=8, harness_timeout=1200, mem_gb=16)],
    functions=["devices::serial::SerialComms::{set_data,set_control,get_data}", "devices::io::IO::set_byte (0x01/0x02 routing)", "mem::{memory_write_byte,memory_write_word,memory_read_byte}",
               "cache::CodeCache::translate_code_block + emitter::Emitter::encode_op (quietness)"],
    bounds={"quick": "port: all SB x SC values; bus routing: one write at any of 65536 addresses with any value after an arbitrary SB; sequences of 4 arbitrary writes to SB/SC "
                     "(order and values symbolic); 16-bit store at 0xFF01; translation of a block with the arena write cursor anywhere in the last 10 KiB",
            "thorough": "sequences of 7 writes"},
    outside=["identical bus writes in translated code are C01's obligation (same bus trace)", "output of main() before the core runs (banner, fallback listing)",
             "the dump_disassembly cargo feature (a debugging build that prints by design)"],
    stubs=CTOR_STUBS + ["Stdout::write/flush and std::io::_print -> byte recorder (native replay captures file descriptor 1 instead)", "cache::linux::apply_protection -> no-op (mprotect FFI)", "Emitter::encode_op/encode_epilogue -> 'writes 1..=64 / 3 bytes' in the quietness harness only"],
    assumptions=[],
    replay={"*": "playback"},
)

PROPS["C19"] = dict(
    level="model_checking",
    groups=lambda tier, seed, ctx: [Group("c19", ["verif_c19"], jobs=8 if tier == "quick" else 2, harness_timeout=1800 if tier == "quick" else 3600, mem_gb=20 if tier == "quick" else 40)],
    functions=["main::load_rom", "system::read_header", "cart::Header::{valid_checksum,get_rom_bank_count,get_rom_size_bytes,get_ram_size_bytes,create_cart_state}",
               "emulator::Core::from_rom_file", "mem::MemoryAreas::with_rom_file"],
    bounds={"quick": "all 2^640 header contents; all file lengths 0..9 MiB; the real load_rom/read_header run against a ghost regular file of that length "
                     "(seek/read/read_exact stubbed to regular-file semantics); accept/reject decision, buffer sizes, and the mmap contract (mapping never extends past EOF); the real read_header on files cut at 0, 0x100, 0x101, 0x14E, 0x14F, 0x150 and 0x8000 bytes",
            "thorough": "plus the real system::read_header (seek + read_exact over the ghost file) for all file lengths: Ok exactly when the 80 header bytes exist, and then equal to them (about 8 min, > 20 GB)"},
    outside=["short-file handling inside read_header in the quick tier (thorough only; the load decision uses a model of read_header there)", "kernel mmap/file semantics beyond the stated contract", "UTF-8 validity of the title (get_title is cut: from_utf8_unchecked)", "I/O errors other than end-of-file"],
    stubs=CTOR_STUBS[1:] + ["system::open_rom_file -> Ok(file) (existence is not the subject)", "File::{seek,read,read_exact} -> regular file of ghost length holding the symbolic header at 0x100",
                            "system::get_rom_buffer -> contract stub recording whether the mapping exceeds the file length", "CodeCache::new -> empty cache without mmap", "Header::get_title -> empty string"],
    assumptions=["unsupported cartridge types are checked separately: construction must not return (controlled termination)"],
    replay={"*": "playback"},
)

PROPS["C20"] = dict(
    level="model_checking",
    groups=lambda tier, seed, ctx: [Group("c20", ["verif_c20"], jobs=14, harness_timeout=300 if tier == "quick" else 3600, mem_gb=12)],
    functions=["debug::command::{parse_address,parse_command,normalize_command}", "debug::disassembly::disassemble", "decoder::{decode,decode_cb}"],
    bounds={"quick": "parse_address: all 65536 values in lower/upper-case, padded/unpadded 0x-hex and in decimal; 0x10000..0xFFFFF and 65536..999999 rejected; "
                     "'0x' + up to 4 arbitrary printable ASCII bytes accepted iff hex digits; arbitrary ASCII tokens <= 5 bytes total. disassemble: every first byte "
                     "(256) and every CB second byte (256) with symbolic operand bytes, placed last in a two-instruction slice (after a NOP, ending exactly on the slice end) at any base address (incl. wrap)",
            "thorough": "plus every opcode placed first (followed by a NOP); plus parse_command: command words with symbolic letter case and whitespace layouts, address arguments for all 65536 values, arbitrary ASCII lines <= 3 bytes "
                        "(String::to_lowercase / split_whitespace over symbolic bytes: each query may exceed its 60 min budget and is then reported inconclusive)"},
    outside=["parse_command in the quick tier (see thorough)", "sign-prefixed numbers (+12, 0x+1f): not settled by the statement", "arbitrary Unicode lines longer than the stated bounds", "rendered disassembly text (Op's Display is cut)",
             "'info registers' two-word command"],
    stubs=["<Op as Display>::fmt -> Ok(()) in the disassembler harnesses (text is not the subject)"],
    assumptions=[],
    replay={"*": "playback"},
)

PROPS["C14"] = dict(
    level="model_checking",
    groups=lambda tier, seed, ctx: [Group("c14", ["verif_c14"], jobs=6, harness_timeout=1800 if tier == "quick" else 7200, mem_gb=24)],
    functions=["devices::video::VideoState::{run_clock_cycles,check_current_line,check_mode_interrupt,get_lcd_status,get_ly,get_current_mode,set_ly_compare,set_lcd_status,new}"],
    bounds={"quick": "one 4-clock step from EVERY valid schedule position (17556 positions x all STAT enables x all LYC values x arbitrary scroll/window registers): "
                     "position advances by 4 on a 70224 cycle, mode/LY/STAT bits and VBlank/STAT requests equal the closed-form schedule (inductive step => frame length, "
                     "once-per-frame VBlank for histories of any length); one call with 8 clocks from any position, an 88-clock batch from position 153*456+448 (across the frame wrap, start position concrete) and a 24-clock batch from 143*456+444 across the 143->144 hand-over equal the same number of reference steps",
            "thorough": "plus one call with 16 clocks (4 machine cycles) from any position (a symbolic batch length k <= 8 or k <= 4 from any position did not finish: 18 GB after 40 min)"},
    outside=["frame length and per-frame counts are consequences of the step relation, not separate 17556-step queries", "LCD disabled (LCDC bit 7 = 0) behaviour: not in the statement"],
    stubs=["LCD::new -> same value without the push loop", "VideoState::{find_current_line_sprites,cache_next_tile_row,cache_next_window_tile_row} -> no-ops (they write only the pixel-pipeline caches, which the schedule does not read; native replay runs the real ones)",
           "LCD::get_writing_buffer_line -> a 160-byte scratch line (pixels are C15's subject)"],
    assumptions=["pixel pipeline state (tile cache, object cache cursor) consistent with the schedule position; VRAM/OAM contents zero (not read by the schedule)"],
    replay={"*": "playback"},
)

def _batches(prefix):
    return [[]]

def _interp_groups(tier, seed, ctx):
    return [Group("cpu_interp", ["verif_cpu_interp"], jobs=16, harness_timeout=900, mem_gb=32)]

_INTERP_COMMON = dict(
    level="model_checking",
    groups=_interp_groups,
    functions=["interpreter::{run_next_op,run_op} and every interp_* function", "decoder::{decode,decode_cb}", "decoder::ops::Op::is_block_end", "cpu::Registers accessors"],
    stubs=["mem::memory_read_byte / memory_write_byte -> recording bus (k-th read returns an arbitrary byte; every event logged and compared in order)",
           "mem::get_executable_memory_slice -> serves the three instruction bytes (opcode concrete, operands symbolic)"],
    assumptions=["F's low nibble is 0 and register pairs are 16-bit in the pre-state (the invariant the property itself states)",
                 "the instruction lies inside one executable region (PC <= 0xFFFC)"],
    replay={"*": "playback"},
    realizable_retry=True,
)
PROPS["C05"] = dict(_INTERP_COMMON, key_prefix="C05",
    bounds={"quick": "one query per defined opcode (245 + 256): ALL register/flag values, operand bytes, bus read values, SP/PC; results, all four flags, F low nibble, "
                     "16-bit range of every pair, and the exact bus event list against the SM83 reference", "thorough": "same (already complete per instruction)"},
    outside=["instructions straddling the end of an executable region"])
PROPS["C06"] = dict(_INTERP_COMMON, key_prefix="C06",
    bounds={"quick": "one query per opcode byte (256 + 256 CB): PC (length / target, 16-bit wrap), SP and the stack bytes in order, machine cycles for taken and not-taken, "
                     "block termination, status; the 11 undefined opcodes must not return", "thorough": "same"},
    outside=["instructions straddling the end of an executable region", "HALT bug, STOP's second byte"])

import templates as _T

def _jit_groups(tier, seed, ctx):
    return [Group("jit", ["verif_jit"], features=["jit"], jobs=16, harness_timeout=1800 if tier == "quick" else 3600, mem_gb=32)]

_JIT_COMMON = dict(
    level="translation_validation",
    pre=_T.pre,
    groups=_jit_groups,
    functions=["emitter::x86_64::Emitter::encode_op and every emit_* template (executed natively, output analysed)", "decoder::decode", "interpreter::run_next_op/run_op",
               "mem::{memory_read_word,memory_write_word}", "verif::x86sem (x86-64 subset semantics)"],
    stubs=_INTERP_COMMON["stubs"] + ["helper calls in emitted code are dispatched to the same recording bus in replay mode: k-th event must equal the interpreter's k-th event"],
    assumptions=_INTERP_COMMON["assumptions"] + ["host state at block entry is what the prologue establishes: eax/ebx/ecx/edx hold the zero-extended pairs, r12w/r13w/r15w the 16-bit fields "
                 "with ARBITRARY upper bits, r14 = 0, every other register, the flags and the stack contents arbitrary", "PC in ROM (only ROM is translated)"],
    inconclusive_keys=["C01.x86sem."],
    replay={"*": "playback"},
    realizable_retry=True,
)
PROPS["C01"] = dict(_JIT_COMMON, key_prefix="C01",
    bounds={"quick": "every defined opcode (245 + 256): the template the real emitter produces on this tree, all guest register/flag values, symbolic operand bytes "
                     "(side table at the byte positions where the emitter copies them), all bus read values, arbitrary host scratch state; single-instruction templates compose "
                     "into blocks because each is checked from ANY related host state",
            "thorough": "same plus block framing"},
    outside=["cache arena exhaustion", "blocks whose accumulated cycles exceed 65535", "a block that remaps the ROM bank it executes from", "real-CPU values of SDM-undefined flags (nondeterministic here)",
             "16-byte stack alignment at helper calls is reported as an observation (cover), not asserted"])
PROPS["C02"] = dict(_JIT_COMMON, key_prefix="C02",
    bounds={"quick": "every defined opcode, both outcomes of every conditional (F symbolic): r15w delta equals the interpreter's cycle delta", "thorough": "same"},
    outside=["more than 65535 cycles in one block"])

PROPS["C07"] = dict(
    level="model_checking",
    groups=lambda tier, seed, ctx: [Group("c07", ["verif_c07"], jobs=6, harness_timeout=2400 if tier == "quick" else 7200, mem_gb=20)],
    functions=["emulator::Core::handle_interrupt", "devices::io::IO::get_active_interrupts", "devices::interrupts::InterruptFlag::{clear,as_u8}", "mem::memory_write_byte (real bus ladder, both pushes)"],
    bounds={"quick": "all 32x32 IF/IE values x 3 master-enable states x 3 run states x every PC x pending cycle counts, with SP ranging over every work-RAM and high-RAM stack position "
                     "and, separately, over the edge set {0x0000,0x0001 (push on IE), 0xFF10,0xFF11 (push on IF), 0xFFFF, HRAM/WRAM lower edges, echo, 0xFEA1, VRAM, 0xFF48}",
            "thorough": "plus a fully symbolic SP through the real ladder"},
    outside=["final IF value when the LOW byte of the push itself lands on IF (statement does not fix it): PC/SP/IME still compared"],
    stubs=CTOR_STUBS + ["Stdout::write/flush -> recorder"],
    assumptions=["cartridge is ROM-only with 8 KiB RAM: the controller is not involved in a dispatch", "device state is power-on (dispatch does not consult it)"],
    replay={"*": "playback"},
)

PROPS["C08"] = dict(
    level="model_checking",
    groups=lambda tier, seed, ctx: [Group("c08", ["verif_c08"], jobs=9, harness_timeout=1800, mem_gb=16)],
    functions=["emulator::Core::{update,run_interp,handle_interrupt}", "interpreter::{run_next_op,run_op}", "decoder::decode", "mem::{memory_write_byte,memory_read_byte}", "devices::io::IO::{set_byte,run_clock_cycles,get_active_interrupts}"],
    bounds={"quick": "one Core::update() (instruction-stepped build) from EVERY control state (3 master-enable states x 3 run states x 32x32 IF/IE x A) for each instruction of "
                     "{EI, DI, RETI, HALT, STOP, NOP, LDH (0x0F),A, LDH (0xFF),A}: the resulting master enable, run state, PC, SP, IF, IE and the pushed return address equal the "
                     "reference machine's. The relation is equality on the whole control state, so sequences of any length follow by induction",
            "thorough": "same"},
    outside=["HALT executed while an enabled interrupt is already pending (excluded by the property)", "PC/SP other than the fixed 0x0150/0xDFF0 (stack position is C07's subject)",
             "devices raising requests on their own during the step (C09/C13/C14)"],
    stubs=CTOR_STUBS + ["mem::get_executable_memory_slice -> serves the instruction bytes (natively they are read from ROM)", "Stdout::write/flush -> recorder"],
    assumptions=["LCD/timer in power-on state: within one step they raise no request"],
    replay={"*": "playback"},
)

PROPS["C03"] = dict(
    level="model_checking",
    groups=lambda tier, seed, ctx: [Group("c03", ["verif_c03"], features=["jit"], jobs=8, harness_timeout=1800, mem_gb=16)],
    functions=["cache::blocks::{MemoryLocation::as_u32/from_u32, CacheRegion::insert/get/set_bank, CachedBlocks::get_region/get_region_mut}",
               "emulator::Core::run_code_block (jit build): lookup / translate-on-miss / call glue", "cache::CodeCache::get_executable_memory_segment",
               "mem::{get_executable_memory_slice,memory_read_byte,memory_write_byte}", "cart::*::{write_rom,get_rom_bank}"],
    bounds={"quick": "key packing over all (bank,address) pairs; region insert/get for every tag and address; region split for every ROM address; glue invariant as an inductive step: "
                     "pre-state with tag == mapped bank, the executed block performs an ARBITRARY guest write below 0x8000 (any bank switch), the next step's lookup must see tag == "
                     "mapped bank; MBC1 and MBC3, all ROM sizes; translation source == fetch view == data view for every ROM address and every bank state; the real translate_code_block "
                     "(decoder and emitter cut) is shown the currently mapped bytes instruction by instruction for a block running across 0x3fff/0x4000",
            "thorough": "same"},
    outside=["a block that switches the bank of the region it is executing from (design limit of block translation)", "BTreeMap itself (std, trusted)", "WRAM/HRAM regions (never translated)",
             "the translated bytes themselves are C01's subject: the three cache entry points are replaced by monitors here"],
    stubs=CTOR_STUBS + ["CodeCache::{get_address_for_ip,translate_code_block,call} and interpreter::run_code_block -> monitors (check tag vs mapped bank; perform an arbitrary guest write)",
                        "MemoryAreas::run_clock_cycles -> no-op", "decoder::decode -> 'three 1-byte instructions then a terminator' recorder and Emitter::encode_op/encode_epilogue -> fixed lengths (translate-source harness)",
                        "cache::linux::apply_protection -> no-op (mprotect FFI)"],
    assumptions=[],
    replay={"c03_glue_*": "solver-only", "c03_translate_*": "solver-only", "*": "playback"},
)

_GLUE_STUBS = CTOR_STUBS + ["CPU executor (interpreter::run_next_op / run_code_block, CodeCache::{get_address_for_ip,translate_code_block,call}) -> 'consumes K >= 1 machine cycles, continues at an arbitrary PC, signals an arbitrary status'",
                            "MemoryAreas::run_clock_cycles -> monitor accumulating delivered clocks", "IO::get_active_interrupts -> its one-line body plus an order monitor"]
PROPS["C09"] = dict(
    level="model_checking",
    groups=lambda tier, seed, ctx: [Group("c09_interp", ["verif_c09"], jobs=6, harness_timeout=1800, mem_gb=16),
                                    Group("c09_jit", ["verif_c09"], features=["jit"], jobs=6, harness_timeout=1800, mem_gb=16)],
    functions=["emulator::Core::{update,run_interp,run_code_block,handle_interrupt}", "cpu::Registers::get_consumed_cycles", "timing::MachineCycles::to_clock_cycles"],
    bounds={"quick": "one Core::update() in BOTH builds (instruction-stepped and block-stepped) from every control state x pending cycles 0..63 x consumed cycles 1..255, PC in ROM and in work RAM: "
                     "clocks delivered = 4 x (pending + consumed), delivered exactly once and before the interrupt sample, halted step = 4 clocks with CPU cycles untouched, a dispatch leaves 5 cycles pending "
                     "(one step from an arbitrary state = induction over step sequences). 'Every instruction costs >= 1 cycle' is C06's per-opcode cycle equality; termination of run_frame follows "
                     "from this step relation and C14's (position advances by the delivered clocks on a 70224 cycle): an argument, not a query",
            "thorough": "same"},
    outside=["a single block longer than a frame", "run_frame termination as a direct query (17556+ steps)"],
    stubs=_GLUE_STUBS, assumptions=["SP is 0xDFF0 or 0x0000 (the latter makes the push land on IE: cancelled dispatch); other stack positions are C07's subject"],
    replay={"*": "solver-only"},
)
PROPS["C04"] = dict(
    level="translation_validation",
    groups=lambda tier, seed, ctx: [Group("c04_interp", ["verif_c04"], jobs=6, harness_timeout=1800, mem_gb=16),
                                    Group("c04_jit", ["verif_c04"], features=["jit"], jobs=6, harness_timeout=1800, mem_gb=16)],
    functions=["emulator::Core::run_code_block in both builds (cfg(feature = jit) on and off)", "emulator::Core::handle_interrupt", "mem::can_dynarec"],
    bounds={"quick": "glue equivalence: Core::run_code_block of BOTH builds against one specification of its tail (status -> run state / master enable, clocks delivered, pending cycles, dispatch, "
                     "return address) with the block executor cut to one shared nondeterministic transition, from every control state, for PCs in ROM (low and high half), work RAM and high RAM; "
                     "executor selection: translated code iff PC < 0x8000 and only in the recompiler build. Per-block equivalence (registers, flags, bus trace, cycles, status) is C01 + C02, cache "
                     "transparency is C03, devices as functions of (bus writes, delivered clocks) are C13-C18: the conjunction is the claim, each conjunct its own solver check",
            "thorough": "same"},
    outside=["end-to-end symbolic runs of multi-block programs with live timer/LCD state (decided by composition only)"],
    stubs=_GLUE_STUBS, assumptions=["SP = 0xDFF0"],
    replay={"*": "solver-only"},
)

PROPS["C15"] = dict(
    level="model_checking",
    groups=lambda tier, seed, ctx: [Group("c15", ["verif_c15"], jobs=5, harness_timeout=3000 if tier == "quick" else 7200, mem_gb=28)],
    functions=["devices::video::VideoState::{run_clock_cycles (mode 2/3/0 pixel pipeline), find_current_line_sprites, get_object_row, cache_next_tile_row, cache_next_window_tile_row, get_tile_address, get_tile_row}",
               "devices::video::tile::interleave", "devices::video::lcd::LCD::get_writing_buffer_line"],
    bounds={"quick": "control values enumerated, contents symbolic: for each of 5 configurations (BG with scroll wrap-around, signed tile addressing and the second map; window starting at WX=163; "
                     "two overlapping objects (symbolic pixel data), once plain and once with both flips, palette 1 and the BG-over-OBJ bit on the winning one; eleven objects on a line two of which are off-screen) one full scan line "
                     "(114 calls of run_clock_cycles) over fully symbolic VRAM (maps and tile data) and palettes, any pixel column compared with the reference compositor; interleave and the "
                     "X-flip multiply trick for all inputs",
            "thorough": "plus a window at the left edge, 8x16 objects with Y flip, equal-X objects"},
    outside=["symbolic scroll/window/OAM positions (enumerated configurations instead; a one-step query over the pixel pipeline with symbolic positions does not finish)",
             "mid-frame register changes (the statement holds them constant)", "the buffer swap at VBlank is part of C14's step relation"],
    stubs=["LCD::new -> same value without the push loop"],
    assumptions=[],
    replay={"*": "playback"},
)

_LEVEL_TEXT = {
 "C01": "Translation validation: for each of the 500 templates the real emitter produces on the current tree, a SAT query over all guest register/flag values, operand bytes, bus read values and host scratch state shows the x86-64 template (executed by an SDM-based subset semantics) leaves the same guest state, status and ordered bus trace as the real interpreter; plus prologue/epilogue framing. Bounded by single instructions composed through the 'any related host state' argument.",
 "C02": "Translation validation of the cycle counter: same queries as C01, asserting the r15w delta equals the interpreter's cycle delta for both outcomes of every conditional.",
 "C03": "Bounded model checking of the cache key/tag lemmas and of the lookup/translate/call glue as an inductive step (arbitrary bank-switching write inside the step), plus equality of the translator's, the fetch and the data view of ROM for every bank state.",
 "C04": "Compositional: Core::run_code_block of both builds against one tail specification with a shared nondeterministic block executor (solver queries in both cargo configurations); per-block equivalence is C01+C02, cache transparency C03, device behaviour C13-C18.",
 "C05": "Bounded model checking of the real decoder + interpreter against an independent SM83 reference, one query per opcode covering all operand/flag/register values and the exact bus event list.",
 "C06": "Same queries as C05 for PC, SP, stack bytes in order, machine cycles (taken / not taken), block termination and status; undefined opcodes must not return.",
 "C07": "Bounded model checking of the real handle_interrupt with the real bus ladder over all IF/IE/IME/run states, every PC, and stack pointers over every RAM stack position and the edge set where the push lands on IE/IF or wraps.",
 "C08": "One-step simulation of the real Core::update against the reference EI/DI/RETI/HALT/STOP machine from every control state (inductive step: covers sequences of any length).",
 "C09": "Bounded model checking of the time accounting of Core::update in both builds with the CPU executor cut to 'consumes k cycles': clocks delivered, order of delivery and sampling, halted steps, dispatch cycles.",
 "C10": "Bounded model checking of the real bus ladder: write-then-read frame rule over all address pairs per target class, unmapped regions, ROM immutability, I/O read-back masks, fetch view.",
 "C11": "Bounded model checking for absence of panics / out-of-bounds / overflow in the four bus helpers over all header size codes, all controller register states and all addresses.",
 "C12": "Bounded model checking of the real controller + bus against a reference MBC1/MBC3 model over all 3-write sequences, all ROM/RAM size codes and every probe offset.",
 "C13": "Bounded model checking of the real Timer against a per-clock reference: inductive single-clock step from any state, batches, fast path, batch splitting, TAC-write glitch.",
 "C14": "Bounded model checking of the real LCD mode machine: one 4-clock step from every schedule position against the closed-form schedule (inductive step), register writes, fixed-length batches.",
 "C15": "Bounded model checking of the real pixel pipeline on enumerated control configurations with fully symbolic VRAM and palettes against a reference compositor; bit tricks for all inputs.",
 "C16": "Bounded model checking of the real DMA engine: arming, the transaction contract from any progress state for all pages (recording bus), batch splitting, idle engine.",
 "C17": "Bounded model checking of the complete joypad transition relation (all states x all single actions) against the button-matrix reference.",
 "C18": "Bounded model checking of the serial port, its bus routing over the whole address space and write sequences, with Stdout/StdoutLock write paths replaced by a byte recorder.",
 "C19": "Bounded model checking of the real load_rom decision over all headers and file lengths against a ghost regular file, checksum and table equivalence over all 80-byte headers.",
 "C20": "Bounded model checking of parse_address over all 65536 values in every notation plus malformed inputs, and of disassemble's tiling for every opcode with symbolic operands at any base address.",
}
for _k, _v in _LEVEL_TEXT.items():
    if _k in PROPS:
        PROPS[_k]["level_text"] = _v
