"""Per-property specifications for bin/check."""
from runner import Group

PROPS = {}

PROPS["C13"] = dict(
    level="model_checking",
    groups=lambda tier, seed, ctx: [Group("c13", ["verif_c13"], jobs=10, harness_timeout=900 if tier == "quick" else 3600, mem_gb=16)],
    functions=["devices::timer::Timer::{run_cycles,set_timer_control,increment_counter,reset_divider,get_divider,"
               "set_counter,get_counter,set_modulo,get_modulo,get_timer_control}", "timing::ClockCycles::as_u32",
               "devices::io::IO::{set_byte,get_byte,run_clock_cycles} (routing harness)"],
    bounds={"quick": "arbitrary reachable Timer state (16-bit phase, TIMA, TMA, TAC, power-on or post-TAC-write masks); "
                     "one clock (inductive step); batches n<=32 clocks; batch split a+b<=16; disabled fast path n<2^24; "
                     "periods 16 and 64 queried directly",
            "thorough": "as quick plus batches n<=96, split a+b<=48, period 256"},
    outside=["enabled-path batches larger than the stated n except through the one-clock step + batch-split induction",
             "whether a DIV write may itself tick TIMA (statement does not fix it)"],
    stubs=[],
    assumptions=["Timer state ranges over: power-on masks, or masks consistent with the last TAC value (the only states the public API produces)"],
    replay={"*": "playback"},
)

PROPS["C17"] = dict(
    level="model_checking",
    groups=lambda tier, seed, ctx: [Group("c17", ["verif_c17"], jobs=8, harness_timeout=600, mem_gb=16)],
    functions=["devices::joypad::Joypad::{press_button,release_button,set_value,get_value,get_interrupt,new}",
               "devices::io::IO::{set_byte,get_byte}(0xFF00) and IO::run_clock_cycles collection (routing harness)"],
    bounds={"quick": "complete transition relation: arbitrary Joypad state (2x4 buttons, both selects, pending latch) x every single action "
                     "(press/release of each of 8 buttons, all 256 P1 writes); one action per query (relation is on the full state, so sequences follow by induction)",
            "thorough": "same (the relation is already complete)"},
    outside=["P1 bits 6-7 (excluded by the property)"],
    stubs=[], assumptions=["button nibbles are 4-bit (the only values press/release can produce)"],
    replay={"*": "playback"},
)

CTOR_STUBS = ["system::get_rom_buffer -> zeroed buffer of the requested size (mmap contract); harnesses poke kani::any() bytes at the cells the reference selects",
              "mem::create_buffer -> zeroed buffer of the requested size without the push loop",
              "LCD::new -> same value without the 23 040-iteration push loop"]

PROPS["C11"] = dict(
    level="model_checking",
    groups=lambda tier, seed, ctx: [Group("c11", ["verif_c11"], jobs=12, harness_timeout=900, mem_gb=16)],
    functions=["mem::{memory_read_byte,memory_write_byte,memory_read_word,memory_write_word}", "mem::MemoryAreas::with_rom_file",
               "cart::Header::{get_rom_size_bytes,get_rom_bank_count,get_ram_size_bytes,create_cart_state}",
               "cart::{NullCartState,MBC1CartState,MBC3CartState}::{write_rom,get_rom_bank,get_ram_bank}", "devices::io::IO::{set_byte,get_byte}"],
    bounds={"quick": "every supported cartridge type x all 256 ROM-size codes x all 256 RAM-size codes (buffers sized by the real header tables) x "
                     "banking registers set by one guest write of an arbitrary value into each of the four controller register windows (= every register state) x "
                     "all 65536 addresses x {byte read, byte write, word read, word write} x all values; Kani's panic / bounds / overflow checks are the assertion",
            "thorough": "same"},
    outside=["cartridge types the loader rejects (panic at load = controlled termination, C19)", "allocation failure"],
    stubs=CTOR_STUBS + ["Stdout::write/flush -> recorder (serial port output is C18's subject)"],
    assumptions=["device state (timer, LCD, joypad) is the power-on state: no bus access path indexes memory with it"],
    replay={"*": "playback"},
)

PROPS["C12"] = dict(
    level="model_checking",
    groups=lambda tier, seed, ctx: [Group("c12", ["verif_c12"], jobs=6, harness_timeout=1500 if tier == "quick" else 5400, mem_gb=24)],
    functions=["cart::{MBC1CartState,MBC3CartState,NullCartState}::{write_rom,get_rom_bank,get_ram_bank}", "cart::Header::{create_cart_state,get_rom_size_bytes,get_ram_size_bytes}",
               "mem::{memory_write_byte,memory_read_byte,get_executable_memory_slice}", "mem::MemoryAreas::{with_rom_file,get_rom_bank}"],
    bounds={"quick": "each controller family x all 256 ROM-size codes x all 256 RAM-size codes (real buffers; arbitrary bytes poked at the cells the reference selects, zero elsewhere) x every sequence of 3 guest writes "
                     "(any address below 0x8000, any value; three relevant registers, so every register state and every order of reaching it) x every probe offset; "
                     "read at 0x4000+off, 0x0000+off, 0xA000+off and instruction-fetch view compared with the byte the reference controller selects",
            "thorough": "same with 5 writes"},
    outside=["RAM-enable gating (not in the statement)", "MBC3 RTC register selection (values >= 4 at 0x4000-0x5fff leave the RAM window unconstrained)",
             "MBC1 mode 1 with the upper bank bits set: both documented readings accepted at 0x4000-0x7fff", "addresses beyond the RAM actually present"],
    stubs=CTOR_STUBS + ["Stdout::write/flush -> recorder"],
    assumptions=[],
    replay={"*": "playback"},
)

PROPS["C10"] = dict(
    level="model_checking",
    groups=lambda tier, seed, ctx: [Group("c10", ["verif_c10"], jobs=10, harness_timeout=1500, mem_gb=16)],
    functions=["mem::{memory_read_byte,memory_write_byte,get_executable_memory_slice}", "mem::MemoryAreas::{with_rom_file,get_rom_bank,cart_ram_index}",
               "devices::io::IO::{set_byte,get_byte}", "devices::{timer,joypad,serial,video}: register accessors reached from IO", "cart::*::{write_rom,get_rom_bank,get_ram_bank}"],
    bounds={"quick": "one write (any of 65536 targets within the harness's target class, any value) followed by one read at any of 65536 addresses, compared with the read "
                     "of the same address before the write; each controller family; all ROM/RAM size codes; arbitrary banking registers; I/O read-back masks for all 128 "
                     "I/O offsets; fetch view over all of WRAM/HRAM (ROM fetch view is in C12). One step from an arbitrary banking state = inductive step over write histories",
            "thorough": "same"},
    outside=["device state other than power-on for the I/O read-back (timer/LCD phase): accessors do not depend on it", "serial port read side (excluded by the property)",
             "cartridge RAM cells beyond the RAM present (open bus by design, C11/C12)", "Core::with_code_block images (4 KiB WRAM): not a loadable configuration"],
    stubs=CTOR_STUBS + ["Stdout::write/flush -> recorder"],
    assumptions=["memory background is zero; the frame rule compares against the measured pre-state so contents do not matter"],
    replay={"*": "playback"},
)

PROPS["C16"] = dict(
    level="model_checking",
    groups=lambda tier, seed, ctx: [Group("c16", ["verif_c16"], jobs=8, harness_timeout=1500 if tier == "quick" else 7200, mem_gb=20)],
    functions=["mem::MemoryAreas::run_clock_cycles", "mem::memory_write_byte (0xff46 arm)", "mem::DMAState"],
    bounds={"quick": "arming from any in-progress state, all 256 pages; transaction contract from any (page, offset): batches of <= 8 bytes, and ANY batch size < 2^24 clocks "
                     "when <= 8 bytes remain; two-batch split a+b <= 8; idle engine any batch size. The contract is additive in the byte count, so longer transfers follow by induction on batches",
            "thorough": "plus batches of <= 18 bytes and a cross-check through the real bus ladder (page 0xC1, <= 2 bytes at any offset, arbitrary probe address)"},
    outside=["CPU-side bus restrictions during DMA (not in the statement)", "what the copied bytes mean: reads/writes at those addresses are C10's subject (recording bus returns arbitrary values)"],
    stubs=CTOR_STUBS + ["mem::memory_read_byte / memory_write_byte -> recording bus (arbitrary read values, event log) in the transaction harnesses",
                        "IO::run_clock_cycles -> no-op (devices do not take part in the copy)"],
    assumptions=["batch sizes are multiples of 4 clocks (every caller passes machine cycles x 4)"],
    replay={"c16_txn_*": "solver-only", "c16_idle_*": "solver-only", "c16_batch_split": "solver-only", "*": "playback"},
)

PROPS["C18"] = dict(
    level="model_checking",
    groups=lambda tier, seed, ctx: [Group("c18", ["verif_c18"], features=["jit"], jobs=8, harness_timeout=1200, mem_gb=16)],
    functions=["devices::serial::SerialComms::{set_data,set_control,get_data}", "devices::io::IO::set_byte (0x01/0x02 routing)", "mem::{memory_write_byte,memory_write_word,memory_read_byte}",
               "cache::CodeCache::translate_code_block + emitter::Emitter::encode_op (quietness)"],
    bounds={"quick": "port: all SB x SC values; bus routing: one write at any of 65536 addresses with any value after an arbitrary SB; sequences of 4 arbitrary writes to SB/SC "
                     "(order and values symbolic); 16-bit store at 0xFF01; translation of a block with the arena write cursor anywhere in the last 10 KiB",
            "thorough": "sequences of 7 writes"},
    outside=["identical bus writes in translated code are C01's obligation (same bus trace)", "output of main() before the core runs (banner, fallback listing)",
             "the dump_disassembly cargo feature (a debugging build that prints by design)"],
    stubs=CTOR_STUBS + ["Stdout::write/flush and std::io::_print -> byte recorder (native replay captures file descriptor 1 instead)", "cache::linux::apply_protection -> no-op (mprotect FFI)", "Emitter::encode_op/encode_epilogue -> 'writes 1..=64 / 3 bytes' in the quietness harness only"],
    assumptions=[],
    replay={"*": "playback"},
)
