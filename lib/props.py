"""Per-property specifications for bin/check."""
from runner import Group

PROPS = {}

PROPS["C13"] = dict(
    level="model_checking",
    groups=lambda tier, seed, ctx: [Group("c13", ["verif_c13"], jobs=10, harness_timeout=900 if tier == "quick" else 3600, mem_gb=16)],
    functions=["devices::timer::Timer::{run_cycles,set_timer_control,increment_counter,reset_divider,get_divider,"
               "set_counter,get_counter,set_modulo,get_modulo,get_timer_control}", "timing::ClockCycles::as_u32",
               "devices::io::IO::{set_byte,get_byte,run_clock_cycles} (routing harness)"],
    bounds={"quick": "arbitrary reachable Timer state (16-bit phase, TIMA, TMA, TAC, power-on or post-TAC-write masks); "
                     "one clock (inductive step); batches n<=32 clocks; batch split a+b<=16; disabled fast path n<2^24; "
                     "periods 16 and 64 queried directly",
            "thorough": "as quick plus batches n<=96, split a+b<=48, period 256"},
    outside=["enabled-path batches larger than the stated n except through the one-clock step + batch-split induction",
             "whether a DIV write may itself tick TIMA (statement does not fix it)"],
    stubs=[],
    assumptions=["Timer state ranges over: power-on masks, or masks consistent with the last TAC value (the only states the public API produces)"],
    replay={"*": "playback"},
)

PROPS["C17"] = dict(
    level="model_checking",
    groups=lambda tier, seed, ctx: [Group("c17", ["verif_c17"], jobs=8, harness_timeout=600, mem_gb=16)],
    functions=["devices::joypad::Joypad::{press_button,release_button,set_value,get_value,get_interrupt,new}",
               "devices::io::IO::{set_byte,get_byte}(0xFF00) and IO::run_clock_cycles collection (routing harness)"],
    bounds={"quick": "complete transition relation: arbitrary Joypad state (2x4 buttons, both selects, pending latch) x every single action "
                     "(press/release of each of 8 buttons, all 256 P1 writes); one action per query (relation is on the full state, so sequences follow by induction)",
            "thorough": "same (the relation is already complete)"},
    outside=["P1 bits 6-7 (excluded by the property)"],
    stubs=[], assumptions=["button nibbles are 4-bit (the only values press/release can produce)"],
    replay={"*": "playback"},
)

CTOR_STUBS = ["system::get_rom_buffer -> buffer of the requested size, arbitrary contents (mmap contract)",
              "mem::create_buffer -> zeroed buffer of the requested size without the push loop",
              "LCD::new -> same value without the 23 040-iteration push loop"]

PROPS["C11"] = dict(
    level="model_checking",
    groups=lambda tier, seed, ctx: [Group("c11", ["verif_c11"], jobs=12, harness_timeout=900, mem_gb=16)],
    functions=["mem::{memory_read_byte,memory_write_byte,memory_read_word,memory_write_word}", "mem::MemoryAreas::with_rom_file",
               "cart::Header::{get_rom_size_bytes,get_rom_bank_count,get_ram_size_bytes,create_cart_state}",
               "cart::{NullCartState,MBC1CartState,MBC3CartState}::{write_rom,get_rom_bank,get_ram_bank}", "devices::io::IO::{set_byte,get_byte}"],
    bounds={"quick": "every supported cartridge type x all 256 ROM-size codes x all 256 RAM-size codes (buffers sized by the real header tables) x "
                     "banking registers set by one guest write of an arbitrary value into each of the four controller register windows (= every register state) x "
                     "all 65536 addresses x {byte read, byte write, word read, word write} x all values; Kani's panic / bounds / overflow checks are the assertion",
            "thorough": "same"},
    outside=["cartridge types the loader rejects (panic at load = controlled termination, C19)", "allocation failure"],
    stubs=CTOR_STUBS + ["Stdout::write/flush -> recorder (serial port output is C18's subject)"],
    assumptions=["device state (timer, LCD, joypad) is the power-on state: no bus access path indexes memory with it"],
    replay={"*": "playback"},
)
