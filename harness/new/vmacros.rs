//! Assertion macro shared by all harnesses.
//! Under Kani it is a plain `assert!` with a stable tag as its message (the
//! driver keys results on the tag).  In the native replay build
//! (`--cfg verif_playback`, Kani concrete playback) it records the failing tag
//! and continues, so that one counterexample run reports every obligation it
//! violates, not only the first.
#[macro_export]
macro_rules! vassert {
  ($c:expr, $tag:expr) => {{
    #[cfg(not(verif_playback))]
    { assert!($c, $tag); }
    #[cfg(verif_playback)]
    { if !($c) { eprintln!("VERIF-FAIL {}", $tag); } }
  }};
}
