//! Assertion macro shared by all harnesses.
//! Under Kani it is a plain `assert!` with a stable tag as its message (the
//! driver keys results on the tag).  In the native replay build
//! (`--cfg verif_playback`, Kani concrete playback) it records the failing tag
//! and continues, so that one counterexample run reports every obligation it
//! violates, not only the first.
#[macro_export]
macro_rules! vassert {
  ($c:expr, $tag:expr) => {{
    #[cfg(not(verif_playback))]
    { assert!($c, $tag); }
    #[cfg(verif_playback)]
    { if !($c) { eprintln!("VERIF-FAIL {}", $tag); } }
  }};
}

/// A group of obligations that must be decided INDEPENDENTLY of each other.  Kani's `assert!` also assumes its
/// condition afterwards, so in a plain sequence an earlier failing obligation hides later ones on the same paths
/// (e.g. a wrong bus trace would hide a wrong cycle count).  Here a nondeterministic selector picks which single
/// obligation a path checks, so every obligation is decided over all inputs.  In native replay all are evaluated.
#[macro_export]
macro_rules! vchecks {
  ($( ($c:expr, $tag:expr) ),+ $(,)?) => {{
    let __sel: u8 = kani::any();
    #[cfg(not(verif_playback))]
    {
      let mut __i: u8 = 0;
      $( if __sel == __i { assert!($c, $tag); } __i += 1; )+
      let _ = __i;
    }
    #[cfg(verif_playback)]
    { let _ = __sel; $( if !($c) { eprintln!("VERIF-FAIL {}", $tag); } )+ }
  }};
}
