//! Stubs used as *cuts* by the harnesses (`#[kani::stub(real, stub)]`).  Each one
//! is listed in the evidence of the property that uses it.
use std::fs::File;

/// Heap buffer of `size` bytes with ARBITRARY contents (CBMC leaves fresh heap
/// objects nondeterministic), for symbolic sizes too.
pub fn any_buffer(size: usize) -> Box<[u8]> {
  let mut v: Vec<u8> = Vec::with_capacity(size);
  unsafe { v.set_len(size); }
  v.into_boxed_slice()
}

/// Contract stub for `system::get_rom_buffer` (mmap of the ROM file): a zeroed
/// buffer of exactly the requested size.  Harnesses poke `kani::any()` bytes at
/// the indexes the reference model says must be read (a wrong index then reads
/// a different byte), which keeps counterexamples replayable natively.
pub fn stub_get_rom_buffer(_f: &mut File, size: usize) -> Box<[u8]> { vec![0u8; size].into_boxed_slice() }

/// `mem::create_buffer(size)`: the real one pushes `size` zero bytes in a loop;
/// the stub allocates the same zeroed buffer without the loop.
pub fn stub_create_buffer(size: usize) -> Box<[u8]> { vec![0u8; size].into_boxed_slice() }

/// Same size, arbitrary contents (used where RAM contents should be symbolic).
pub fn stub_create_buffer_any(size: usize) -> Box<[u8]> { any_buffer(size) }

pub fn stub_lcd_new() -> crate::devices::video::lcd::LCD { crate::devices::video::lcd::LCD::verif_new() }

/// Under Kani: a `File` value that is never used for I/O (all file access is
/// stubbed).  In the native replay build (no stubs): a real, unlinked, sparse
/// 8 MiB temporary file, so that the REAL loader (`mmap`) runs.
#[cfg(not(verif_playback))]
pub fn dummy_file() -> File {
  use std::os::unix::io::FromRawFd;
  unsafe { File::from_raw_fd(3) }
}
#[cfg(verif_playback)]
pub fn dummy_file() -> File {
  use std::sync::atomic::{AtomicUsize, Ordering};
  static N: AtomicUsize = AtomicUsize::new(0);
  let mut p = std::env::temp_dir();
  p.push(format!("gbdv-replay-{}-{}.rom", std::process::id(), N.fetch_add(1, Ordering::SeqCst)));
  let f = std::fs::OpenOptions::new().read(true).write(true).create(true).truncate(true).open(&p).expect("temp rom");
  f.set_len(8 << 20).expect("set_len");
  let _ = std::fs::remove_file(&p);
  f
}

// ---- stdout recorder (serial port, diagnostics) ----
pub static mut OUT: [u8; 8] = [0; 8];
pub static mut NOUT: usize = 0;
pub static mut PRINT_CALLS: usize = 0;
pub fn out_reset() { unsafe { NOUT = 0; PRINT_CALLS = 0; } }
pub fn out_len() -> usize { unsafe { NOUT } }
pub fn out_byte(i: usize) -> u8 { unsafe { OUT[i & 7] } }
pub fn print_calls() -> usize { unsafe { PRINT_CALLS } }
pub fn stub_stdout_write(_s: &mut std::io::Stdout, buf: &[u8]) -> std::io::Result<usize> {
  unsafe {
    let mut i = 0;
    while i < buf.len() { if NOUT < 8 { OUT[NOUT] = buf[i]; } NOUT += 1; i += 1; }
  }
  Ok(buf.len())
}
pub fn stub_stdout_flush(_s: &mut std::io::Stdout) -> std::io::Result<()> { Ok(()) }
pub fn stub_print(_args: std::fmt::Arguments<'_>) { unsafe { PRINT_CALLS += 1; } }
