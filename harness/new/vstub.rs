//! Stubs used as *cuts* by the harnesses (`#[kani::stub(real, stub)]`).  Each one
//! is listed in the evidence of the property that uses it.
use std::fs::File;

/// Heap buffer of `size` bytes with ARBITRARY contents (CBMC leaves fresh heap
/// objects nondeterministic), for symbolic sizes too.
pub fn any_buffer(size: usize) -> Box<[u8]> {
  let mut v: Vec<u8> = Vec::with_capacity(size);
  unsafe { v.set_len(size); }
  v.into_boxed_slice()
}

/// Contract stub for `system::get_rom_buffer` (mmap of the ROM file): a buffer
/// of exactly the requested size with arbitrary contents.
pub fn stub_get_rom_buffer(_f: &mut File, size: usize) -> Box<[u8]> { any_buffer(size) }

/// `mem::create_buffer(size)`: the real one pushes `size` zero bytes in a loop;
/// the stub allocates the same zeroed buffer without the loop.
pub fn stub_create_buffer(size: usize) -> Box<[u8]> { vec![0u8; size].into_boxed_slice() }

/// Same size, arbitrary contents (used where RAM contents should be symbolic).
pub fn stub_create_buffer_any(size: usize) -> Box<[u8]> { any_buffer(size) }

pub fn stub_lcd_new() -> crate::devices::video::lcd::LCD { crate::devices::video::lcd::LCD::verif_new() }

/// A `File` value that is never used for I/O (all file access is stubbed).
pub fn dummy_file() -> File {
  use std::os::unix::io::FromRawFd;
  unsafe { File::from_raw_fd(3) }
}

// ---- stdout recorder (serial port, diagnostics) ----
pub static mut OUT: [u8; 8] = [0; 8];
pub static mut NOUT: usize = 0;
pub static mut PRINT_CALLS: usize = 0;
pub fn out_reset() { unsafe { NOUT = 0; PRINT_CALLS = 0; } }
pub fn out_len() -> usize { unsafe { NOUT } }
pub fn out_byte(i: usize) -> u8 { unsafe { OUT[i & 7] } }
pub fn print_calls() -> usize { unsafe { PRINT_CALLS } }
pub fn stub_stdout_write(_s: &mut std::io::Stdout, buf: &[u8]) -> std::io::Result<usize> {
  unsafe {
    let mut i = 0;
    while i < buf.len() { if NOUT < 8 { OUT[NOUT] = buf[i]; } NOUT += 1; i += 1; }
  }
  Ok(buf.len())
}
pub fn stub_stdout_flush(_s: &mut std::io::Stdout) -> std::io::Result<()> { Ok(()) }
pub fn stub_print(_args: std::fmt::Arguments<'_>) { unsafe { PRINT_CALLS += 1; } }
