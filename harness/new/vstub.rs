//! Stubs used as *cuts* by the harnesses (`#[kani::stub(real, stub)]`).  Each one
//! is listed in the evidence of the property that uses it.
use std::fs::File;

/// Heap buffer of `size` bytes with ARBITRARY contents (CBMC leaves fresh heap
/// objects nondeterministic), for symbolic sizes too.
pub fn any_buffer(size: usize) -> Box<[u8]> {
  let mut v: Vec<u8> = Vec::with_capacity(size);
  unsafe { v.set_len(size); }
  v.into_boxed_slice()
}

/// Contract stub for `system::get_rom_buffer` (mmap of the ROM file): a zeroed
/// buffer of exactly the requested size.  Harnesses poke `kani::any()` bytes at
/// the indexes the reference model says must be read (a wrong index then reads
/// a different byte), which keeps counterexamples replayable natively.
pub fn stub_get_rom_buffer(_f: &mut File, size: usize) -> Box<[u8]> { vec![0u8; size].into_boxed_slice() }

/// `mem::create_buffer(size)`: the real one pushes `size` zero bytes in a loop;
/// the stub allocates the same zeroed buffer without the loop.
pub fn stub_create_buffer(size: usize) -> Box<[u8]> { vec![0u8; size].into_boxed_slice() }

/// Same size, arbitrary contents (used where RAM contents should be symbolic).
pub fn stub_create_buffer_any(size: usize) -> Box<[u8]> { any_buffer(size) }

pub fn stub_lcd_new() -> crate::devices::video::lcd::LCD { crate::devices::video::lcd::LCD::verif_new() }

/// Under Kani: a `File` value that is never used for I/O (all file access is
/// stubbed).  In the native replay build (no stubs): a real, unlinked, sparse
/// 8 MiB temporary file, so that the REAL loader (`mmap`) runs.
#[cfg(not(verif_playback))]
pub fn dummy_file() -> File {
  use std::os::unix::io::FromRawFd;
  unsafe { File::from_raw_fd(3) }
}
#[cfg(verif_playback)]
pub fn dummy_file() -> File {
  use std::sync::atomic::{AtomicUsize, Ordering};
  static N: AtomicUsize = AtomicUsize::new(0);
  let mut p = std::env::temp_dir();
  p.push(format!("gbdv-replay-{}-{}.rom", std::process::id(), N.fetch_add(1, Ordering::SeqCst)));
  let f = std::fs::OpenOptions::new().read(true).write(true).create(true).truncate(true).open(&p).expect("temp rom");
  f.set_len(8 << 20).expect("set_len");
  let _ = std::fs::remove_file(&p);
  f
}

// NOTE: every `static mut` here has a unique non-zero initialiser on purpose: Kani 0.68 merges
// zero-initialised statics with identical constant allocations of std (observed: a `static mut u64 = 0`
// aliased RawVec's Cap::ZERO).  Harnesses reset the ghosts explicitly before use.
// ---- stdout recorder (serial port, diagnostics) ----
// Under Kani: `Stdout::write/flush` and `std::io::_print` are stubbed by the
// recorders below.  In the native replay build nothing is stubbed; the same
// accessor functions capture file descriptor 1 into a temporary file instead,
// so the harness observes what the real code really wrote to stdout.
#[cfg(not(verif_playback))]
mod rec {
  pub static mut OUT: [u8; 8] = [0xa1, 0xa2, 0xa3, 0xa4, 0xa5, 0xa6, 0xa7, 0xa8];
  pub static mut NOUT: usize = 0x5a5a_0101_0101;
  pub fn reset() { unsafe { NOUT = 0; } }
  pub fn len() -> usize { unsafe { NOUT } }
  pub fn byte(i: usize) -> u8 { unsafe { OUT[i & 7] } }
  pub fn finish() {}
  pub fn push(b: u8) { unsafe { if NOUT < 8 { OUT[NOUT] = b; } NOUT += 1; } }
}
#[cfg(verif_playback)]
mod rec {
  use std::io::{Read, Seek, SeekFrom, Write};
  use std::os::unix::io::AsRawFd;
  static mut SAVED: i32 = -1;
  static mut FILE: Option<std::fs::File> = None;
  pub fn reset() {
    let _ = std::io::stdout().flush();
    let mut p = std::env::temp_dir();
    p.push(format!("gbdv-stdout-{}.cap", std::process::id()));
    let f = std::fs::OpenOptions::new().read(true).write(true).create(true).truncate(true).open(&p).expect("capture file");
    let _ = std::fs::remove_file(&p);
    unsafe {
      if SAVED < 0 { SAVED = libc::dup(1); }
      libc::dup2(f.as_raw_fd(), 1);
      FILE = Some(f);
    }
  }
  fn contents() -> Vec<u8> {
    let _ = std::io::stdout().flush();
    let mut v = Vec::new();
    unsafe {
      if let Some(f) = FILE.as_mut() { let _ = f.seek(SeekFrom::Start(0)); let _ = f.read_to_end(&mut v); }
    }
    v
  }
  pub fn len() -> usize { contents().len() }
  pub fn byte(i: usize) -> u8 { let c = contents(); if i < c.len() { c[i] } else { 0 } }
  pub fn finish() { let _ = std::io::stdout().flush(); unsafe { if SAVED >= 0 { libc::dup2(SAVED, 1); } } }
  pub fn push(_b: u8) {}
}
pub fn out_reset() { rec::reset() }
pub fn out_len() -> usize { rec::len() }
pub fn out_byte(i: usize) -> u8 { rec::byte(i) }
pub fn out_finish() { rec::finish() }
pub fn stub_stdout_write(_s: &mut std::io::Stdout, buf: &[u8]) -> std::io::Result<usize> {
  let mut i = 0;
  while i < buf.len() { rec::push(buf[i]); i += 1; }
  Ok(buf.len())
}
pub fn stub_stdout_flush(_s: &mut std::io::Stdout) -> std::io::Result<()> { Ok(()) }
pub fn stub_stdout_write_all(_s: &mut std::io::Stdout, buf: &[u8]) -> std::io::Result<()> {
  let mut i = 0;
  while i < buf.len() { rec::push(buf[i]); i += 1; }
  Ok(())
}
pub fn stub_lock_write<'a>(_s: &mut std::io::StdoutLock<'a>, buf: &[u8]) -> std::io::Result<usize> where 'a: 'a {
  let mut i = 0;
  while i < buf.len() { rec::push(buf[i]); i += 1; }
  Ok(buf.len())
}
pub fn stub_lock_write_all<'a>(_s: &mut std::io::StdoutLock<'a>, buf: &[u8]) -> std::io::Result<()> where 'a: 'a {
  let mut i = 0;
  while i < buf.len() { rec::push(buf[i]); i += 1; }
  Ok(())
}
pub fn stub_lock_flush<'a>(_s: &mut std::io::StdoutLock<'a>) -> std::io::Result<()> where 'a: 'a { Ok(()) }
/// `print!`/`println!` end up here; the text is not modelled, one marker byte is recorded.
pub fn stub_print(_args: std::fmt::Arguments<'_>) { rec::push(0x0a); }

// ---- ROM file model (C19) ----
// Under Kani the file is a ghost: FILE_LEN bytes long, the 80 header bytes at
// 0x100 are HEADER, `File` seek/read/read_exact are stubbed to behave like a
// regular file of that length.  In the native replay build a real sparse
// temporary file with the same length and header is created and nothing is
// stubbed: the real loader, real `mmap`.
pub static mut FILE_LEN: u64 = 0x5a5a_0001_0001;
pub static mut FILE_POS: u64 = 0x5a5a_0002_0002;
pub static mut HEADER: [u8; 80] = [0xb7; 80];
pub static mut MAPPED_BEYOND_FILE: bool = true;
pub static mut MAP_CALLS: usize = 0x5a5a_0303_0303;

#[cfg(not(verif_playback))]
pub fn make_rom_file(header: &[u8; 80], len: u64) -> String {
  unsafe { FILE_LEN = len; FILE_POS = 0; HEADER = *header; MAPPED_BEYOND_FILE = false; MAP_CALLS = 0; }
  String::new()
}
#[cfg(verif_playback)]
pub fn make_rom_file(header: &[u8; 80], len: u64) -> String {
  use std::io::{Seek, SeekFrom, Write};
  let mut p = std::env::temp_dir();
  p.push(format!("gbdv-c19-{}.gb", std::process::id()));
  let mut f = std::fs::OpenOptions::new().read(true).write(true).create(true).truncate(true).open(&p).expect("temp rom");
  f.set_len(len).expect("set_len");
  let mut i = 0u64;
  while i < 80 {
    if 0x100 + i < len { let _ = f.seek(SeekFrom::Start(0x100 + i)); let _ = f.write(&[header[i as usize]]); }
    i += 1;
  }
  f.set_len(len).expect("set_len");
  p.to_string_lossy().into_owned()
}
pub fn stub_open_rom_file(_name: String) -> Result<File, String> { Ok(dummy_file()) }
pub fn stub_file_seek(_f: &mut File, pos: std::io::SeekFrom) -> std::io::Result<u64> {
  unsafe {
    let np = match pos {
      std::io::SeekFrom::Start(n) => n,
      std::io::SeekFrom::End(d) => (FILE_LEN as i64).wrapping_add(d) as u64,
      std::io::SeekFrom::Current(d) => (FILE_POS as i64).wrapping_add(d) as u64,
    };
    FILE_POS = np;
    Ok(np)
  }
}
/// Copies file bytes [pos, pos+n) into buf[..n] without a byte loop (memcpy of the header overlap, zeros elsewhere).
fn file_copy(pos: u64, buf: &mut [u8], n: usize) {
  unsafe {
    if n == 0 { return; }
    if pos == 0x100 && n <= 80 {
      buf[..n].copy_from_slice(&HEADER[..n]);
    } else {
      // other offsets are not used by the loader; serve zeros outside the header and single header bytes inside
      let mut i = 0;
      while i < n && i < 4 { let p = pos + i as u64; buf[i] = if p >= 0x100 && p < 0x150 { HEADER[(p - 0x100) as usize] } else { 0 }; i += 1; }
    }
  }
}
pub fn stub_file_read(_f: &mut File, buf: &mut [u8]) -> std::io::Result<usize> {
  unsafe {
    let avail = if FILE_POS < FILE_LEN { FILE_LEN - FILE_POS } else { 0 };
    if avail >= buf.len() as u64 {
      let n = buf.len();
      file_copy(FILE_POS, buf, n);
      FILE_POS += n as u64;
      Ok(n)
    } else {
      let n = avail as usize;
      file_copy(FILE_POS, buf, n);
      FILE_POS = FILE_LEN;
      Ok(n)
    }
  }
}
/// Contract stub of the ROM `mmap`: records whether the mapping extends past the end of the file
/// (pages beyond EOF fault with SIGBUS when touched).
pub fn stub_get_rom_buffer_contract(_f: &mut File, size: usize) -> Box<[u8]> {
  unsafe { MAP_CALLS += 1; if (size as u64) > FILE_LEN { MAPPED_BEYOND_FILE = true; } }
  vec![0u8; size].into_boxed_slice()
}
pub fn mapped_beyond_file() -> bool { unsafe { MAPPED_BEYOND_FILE } }
pub fn stub_get_title(_h: &crate::cart::Header) -> String { String::new() }
pub fn stub_codecache_new() -> crate::cache::CodeCache { crate::cache::CodeCache::verif_new(64) }

/// `system::read_header` over the ghost file (used where the loader decision, not the header I/O, is the subject;
/// the real `read_header` is checked against the same ghost file by its own harness).
pub fn stub_read_header(_f: &mut File) -> Result<crate::cart::Header, String> {
  unsafe {
    if FILE_LEN >= 0x150 { Ok(crate::cart::Header::verif_from_bytes(HEADER)) } else { Err(String::new()) }
  }
}

/// Dropping the (dummy) `File` would call close(2), an FFI call Kani cannot model.
pub fn stub_ownedfd_drop(_fd: &mut std::os::fd::OwnedFd) {}

/// The file handed to `read_header`: the dummy under Kani (I/O is stubbed), the real temporary file natively.
#[cfg(not(verif_playback))]
pub fn open_for_read_header(_name: String) -> File { dummy_file() }
#[cfg(verif_playback)]
pub fn open_for_read_header(name: String) -> File { std::fs::File::open(&name).expect("temp rom") }
