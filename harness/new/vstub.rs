//! Stubs used as *cuts* by the harnesses (`#[kani::stub(real, stub)]`).  Each one
//! is listed in the evidence of the property that uses it.
use std::fs::File;

/// Heap buffer of `size` bytes with ARBITRARY contents (CBMC leaves fresh heap
/// objects nondeterministic), for symbolic sizes too.
pub fn any_buffer(size: usize) -> Box<[u8]> {
  let mut v: Vec<u8> = Vec::with_capacity(size);
  unsafe { v.set_len(size); }
  v.into_boxed_slice()
}

/// Contract stub for `system::get_rom_buffer` (mmap of the ROM file): a zeroed
/// buffer of exactly the requested size.  Harnesses poke `kani::any()` bytes at
/// the indexes the reference model says must be read (a wrong index then reads
/// a different byte), which keeps counterexamples replayable natively.
pub fn stub_get_rom_buffer(_f: &mut File, size: usize) -> Box<[u8]> { vec![0u8; size].into_boxed_slice() }

/// `mem::create_buffer(size)`: the real one pushes `size` zero bytes in a loop;
/// the stub allocates the same zeroed buffer without the loop.
pub fn stub_create_buffer(size: usize) -> Box<[u8]> { vec![0u8; size].into_boxed_slice() }

/// Same size, arbitrary contents (used where RAM contents should be symbolic).
pub fn stub_create_buffer_any(size: usize) -> Box<[u8]> { any_buffer(size) }

pub fn stub_lcd_new() -> crate::devices::video::lcd::LCD { crate::devices::video::lcd::LCD::verif_new() }

/// Under Kani: a `File` value that is never used for I/O (all file access is
/// stubbed).  In the native replay build (no stubs): a real, unlinked, sparse
/// 8 MiB temporary file, so that the REAL loader (`mmap`) runs.
#[cfg(not(verif_playback))]
pub fn dummy_file() -> File {
  use std::os::unix::io::FromRawFd;
  unsafe { File::from_raw_fd(3) }
}
#[cfg(verif_playback)]
pub fn dummy_file() -> File {
  use std::sync::atomic::{AtomicUsize, Ordering};
  static N: AtomicUsize = AtomicUsize::new(0);
  let mut p = std::env::temp_dir();
  p.push(format!("gbdv-replay-{}-{}.rom", std::process::id(), N.fetch_add(1, Ordering::SeqCst)));
  let f = std::fs::OpenOptions::new().read(true).write(true).create(true).truncate(true).open(&p).expect("temp rom");
  f.set_len(8 << 20).expect("set_len");
  let _ = std::fs::remove_file(&p);
  f
}

// ---- stdout recorder (serial port, diagnostics) ----
// Under Kani: `Stdout::write/flush` and `std::io::_print` are stubbed by the
// recorders below.  In the native replay build nothing is stubbed; the same
// accessor functions capture file descriptor 1 into a temporary file instead,
// so the harness observes what the real code really wrote to stdout.
#[cfg(not(verif_playback))]
mod rec {
  pub static mut OUT: [u8; 8] = [0; 8];
  pub static mut NOUT: usize = 0;
  pub fn reset() { unsafe { NOUT = 0; } }
  pub fn len() -> usize { unsafe { NOUT } }
  pub fn byte(i: usize) -> u8 { unsafe { OUT[i & 7] } }
  pub fn finish() {}
  pub fn push(b: u8) { unsafe { if NOUT < 8 { OUT[NOUT] = b; } NOUT += 1; } }
}
#[cfg(verif_playback)]
mod rec {
  use std::io::{Read, Seek, SeekFrom, Write};
  use std::os::unix::io::AsRawFd;
  static mut SAVED: i32 = -1;
  static mut FILE: Option<std::fs::File> = None;
  pub fn reset() {
    let _ = std::io::stdout().flush();
    let mut p = std::env::temp_dir();
    p.push(format!("gbdv-stdout-{}.cap", std::process::id()));
    let f = std::fs::OpenOptions::new().read(true).write(true).create(true).truncate(true).open(&p).expect("capture file");
    let _ = std::fs::remove_file(&p);
    unsafe {
      if SAVED < 0 { SAVED = libc::dup(1); }
      libc::dup2(f.as_raw_fd(), 1);
      FILE = Some(f);
    }
  }
  fn contents() -> Vec<u8> {
    let _ = std::io::stdout().flush();
    let mut v = Vec::new();
    unsafe {
      if let Some(f) = FILE.as_mut() { let _ = f.seek(SeekFrom::Start(0)); let _ = f.read_to_end(&mut v); }
    }
    v
  }
  pub fn len() -> usize { contents().len() }
  pub fn byte(i: usize) -> u8 { let c = contents(); if i < c.len() { c[i] } else { 0 } }
  pub fn finish() { let _ = std::io::stdout().flush(); unsafe { if SAVED >= 0 { libc::dup2(SAVED, 1); } } }
  pub fn push(_b: u8) {}
}
pub fn out_reset() { rec::reset() }
pub fn out_len() -> usize { rec::len() }
pub fn out_byte(i: usize) -> u8 { rec::byte(i) }
pub fn out_finish() { rec::finish() }
pub fn stub_stdout_write(_s: &mut std::io::Stdout, buf: &[u8]) -> std::io::Result<usize> {
  let mut i = 0;
  while i < buf.len() { rec::push(buf[i]); i += 1; }
  Ok(buf.len())
}
pub fn stub_stdout_flush(_s: &mut std::io::Stdout) -> std::io::Result<()> { Ok(()) }
pub fn stub_stdout_write_all(_s: &mut std::io::Stdout, buf: &[u8]) -> std::io::Result<()> {
  let mut i = 0;
  while i < buf.len() { rec::push(buf[i]); i += 1; }
  Ok(())
}
pub fn stub_lock_write<'a>(_s: &mut std::io::StdoutLock<'a>, buf: &[u8]) -> std::io::Result<usize> where 'a: 'a {
  let mut i = 0;
  while i < buf.len() { rec::push(buf[i]); i += 1; }
  Ok(buf.len())
}
pub fn stub_lock_write_all<'a>(_s: &mut std::io::StdoutLock<'a>, buf: &[u8]) -> std::io::Result<()> where 'a: 'a {
  let mut i = 0;
  while i < buf.len() { rec::push(buf[i]); i += 1; }
  Ok(())
}
pub fn stub_lock_flush<'a>(_s: &mut std::io::StdoutLock<'a>) -> std::io::Result<()> where 'a: 'a { Ok(()) }
/// `print!`/`println!` end up here; the text is not modelled, one marker byte is recorded.
pub fn stub_print(_args: std::fmt::Arguments<'_>) { rec::push(0x0a); }
