//! x86-64 integer-subset semantics (Intel SDM) for the instruction forms the
//! emitter can produce: ALU r/m (8/16/32/64), shifts/rotates, mov, movzx, push/pop,
//! pushf/popf, setcc, jcc rel8, jmp rel8, test, not, inc/dec, bt, movabs,
//! `call rax` (helper call-out), `jmp rdi` (block exit).  Written so that with
//! constant code bytes every decode decision is constant and only data is
//! symbolic.  Flags the SDM leaves undefined are fresh nondeterministic values,
//! so a template that depends on one fails instead of passing.

pub const RAX: usize = 0; pub const RCX: usize = 1; pub const RDX: usize = 2; pub const RBX: usize = 3;
pub const RSP: usize = 4; pub const RBP: usize = 5; pub const RSI: usize = 6; pub const RDI: usize = 7;
pub const R12: usize = 12; pub const R13: usize = 13; pub const R14: usize = 14; pub const R15: usize = 15;

pub const STACK_SLOTS: usize = 24;

#[derive(Clone, Copy)]
pub struct Flags { pub cf: bool, pub pf: bool, pub af: bool, pub zf: bool, pub sf: bool, pub of: bool }

#[derive(Clone, Copy, PartialEq, Eq)]
pub enum Stop { End, CallOut, Unsupported(usize), StackFault, Ret, JmpReg(usize) }

pub trait Env {
  /// called on `call rax`; implementor dispatches on the (concrete) target
  fn call(&mut self, target: u64, cpu: &mut Cpu);
  /// value of a flag the SDM leaves undefined / of a register a callee may clobber
  fn undef_bool(&mut self) -> bool;
}

#[derive(Clone, Copy)]
pub struct Cpu {
  pub r: [u64; 16],
  pub f: Flags,
  /// stack slots; slot index sp_top is the current top of stack (grows downwards in index)
  pub stack: [u64; STACK_SLOTS],
  pub sp: usize, // concrete slot index of [rsp]
  pub fault: bool,
  /// the guest register file the prologue/epilogue address through rdi ([rdi + disp8], little endian)
  pub smem: [u8; 32],
}

fn parity(v: u8) -> bool { (v.count_ones() & 1) == 0 }

fn mask(size: u8) -> u64 { match size { 1 => 0xff, 2 => 0xffff, 4 => 0xffff_ffff, _ => u64::MAX } }
fn signbit(size: u8) -> u64 { match size { 1 => 0x80, 2 => 0x8000, 4 => 0x8000_0000, _ => 1u64 << 63 } }

#[derive(Clone, Copy)]
pub enum Opnd { Reg(usize), Reg8Hi(usize), StackByteOff(usize), Struct(usize), None }

impl Cpu {
  pub fn get(&self, o: Opnd, size: u8) -> u64 {
    match o {
      Opnd::Reg(i) => self.r[i] & mask(size),
      Opnd::Reg8Hi(i) => (self.r[i] >> 8) & 0xff,
      Opnd::StackByteOff(off) => {
        // off is a concrete byte offset from rsp
        let slot = self.sp + off / 8;
        let sh = (off % 8) * 8;
        if slot >= STACK_SLOTS { return 0; }
        let lo = self.stack[slot] >> sh;
        // accesses that straddle a slot are not needed by the templates
        lo & mask(size)
      }
      Opnd::Struct(off) => {
        let mut v: u64 = 0;
        let mut i = 0;
        while i < size as usize { if off + i < 32 { v |= (self.smem[off + i] as u64) << (8 * i); } i += 1; }
        v
      }
      Opnd::None => 0,
    }
  }
  pub fn set(&mut self, o: Opnd, size: u8, v: u64) {
    match o {
      Opnd::Reg(i) => {
        match size {
          1 => self.r[i] = (self.r[i] & !0xff) | (v & 0xff),
          2 => self.r[i] = (self.r[i] & !0xffff) | (v & 0xffff),
          4 => self.r[i] = v & 0xffff_ffff,
          _ => self.r[i] = v,
        }
      }
      Opnd::Reg8Hi(i) => self.r[i] = (self.r[i] & !0xff00) | ((v & 0xff) << 8),
      Opnd::StackByteOff(off) => {
        let slot = self.sp + off / 8;
        let sh = (off % 8) * 8;
        if slot >= STACK_SLOTS || (off % 8) + size as usize > 8 { self.fault = true; return; }
        let m = mask(size) << sh;
        self.stack[slot] = (self.stack[slot] & !m) | ((v & mask(size)) << sh);
      }
      Opnd::Struct(off) => {
        if off + size as usize > 32 { self.fault = true; return; }
        let mut i = 0;
        while i < size as usize { self.smem[off + i] = (v >> (8 * i)) as u8; i += 1; }
      }
      Opnd::None => {}
    }
  }
  pub fn push(&mut self, v: u64) {
    if self.sp == 0 { self.fault = true; return; }
    self.sp -= 1;
    self.stack[self.sp] = v;
  }
  pub fn pop(&mut self) -> u64 {
    if self.sp >= STACK_SLOTS { self.fault = true; return 0; }
    let v = self.stack[self.sp];
    self.sp += 1;
    v
  }
  pub fn rflags(&self) -> u64 {
    2 | (self.f.cf as u64) | ((self.f.pf as u64) << 2) | ((self.f.af as u64) << 4) | ((self.f.zf as u64) << 6) | ((self.f.sf as u64) << 7) | ((self.f.of as u64) << 11)
  }
  pub fn set_rflags(&mut self, v: u64) {
    self.f = Flags { cf: v & 1 != 0, pf: v & 4 != 0, af: v & 0x10 != 0, zf: v & 0x40 != 0, sf: v & 0x80 != 0, of: v & 0x800 != 0 };
  }
  fn szp(&mut self, res: u64, size: u8) {
    self.f.zf = res & mask(size) == 0;
    self.f.sf = res & signbit(size) != 0;
    self.f.pf = parity(res as u8);
  }
  /// alu: 0 add 1 or 2 adc 3 sbb 4 and 5 sub 6 xor 7 cmp
  fn alu(&mut self, op: u8, a: u64, b: u64, size: u8, env: &mut dyn Env) -> Option<u64> {
    let m = mask(size);
    let a = a & m; let b = b & m;
    match op {
      0 | 2 => {
        let c = if op == 2 && self.f.cf { 1u64 } else { 0 };
        let res = a.wrapping_add(b).wrapping_add(c) & m;
        self.f.cf = if size == 8 { (a as u128 + b as u128 + c as u128) > u64::MAX as u128 } else { a + b + c > m };
        self.f.af = ((a & 0xf) + (b & 0xf) + c) > 0xf;
        self.f.of = ((a ^ res) & (b ^ res) & signbit(size)) != 0;
        self.szp(res, size);
        Some(res)
      }
      5 | 3 | 7 => {
        let c = if op == 3 && self.f.cf { 1u64 } else { 0 };
        let res = a.wrapping_sub(b).wrapping_sub(c) & m;
        self.f.cf = (a as u128) < (b as u128 + c as u128);
        self.f.af = (a & 0xf) < ((b & 0xf) + c);
        self.f.of = ((a ^ b) & (a ^ res) & signbit(size)) != 0;
        self.szp(res, size);
        if op == 7 { None } else { Some(res) }
      }
      1 | 4 | 6 => {
        let res = match op { 1 => a | b, 4 => a & b, _ => a ^ b };
        self.f.cf = false; self.f.of = false;
        self.f.af = env.undef_bool();
        self.szp(res, size);
        Some(res)
      }
      _ => None,
    }
  }
  fn cond(&self, cc: u8) -> bool {
    let f = &self.f;
    let base = match cc >> 1 {
      0 => f.of,
      1 => f.cf,
      2 => f.zf,
      3 => f.cf || f.zf,
      4 => f.sf,
      5 => f.pf,
      6 => f.sf != f.of,
      _ => f.zf || (f.sf != f.of),
    };
    if cc & 1 != 0 { !base } else { base }
  }
  /// shift/rotate group; count is concrete
  fn shift(&mut self, kind: u8, v: u64, count: u8, size: u8, env: &mut dyn Env) -> u64 {
    let bits = (size as u32) * 8;
    let m = mask(size);
    let v = v & m;
    let cnt = (count as u32) & if size == 8 { 63 } else { 31 };
    if cnt == 0 { return v; }
    match kind {
      0 => { // rol
        let c = cnt % bits;
        let res = if c == 0 { v } else { ((v << c) | (v >> (bits - c))) & m };
        self.f.cf = res & 1 != 0;
        if cnt == 1 { self.f.of = ((res & signbit(size)) != 0) != self.f.cf; } else { self.f.of = env.undef_bool(); }
        res
      }
      1 => { // ror
        let c = cnt % bits;
        let res = if c == 0 { v } else { ((v >> c) | (v << (bits - c))) & m };
        self.f.cf = res & signbit(size) != 0;
        if cnt == 1 { self.f.of = ((res & signbit(size)) != 0) != ((res & (signbit(size) >> 1)) != 0); } else { self.f.of = env.undef_bool(); }
        res
      }
      2 => { // rcl by 1 only
        if cnt != 1 { self.fault = true; return v; }
        let res = ((v << 1) | (self.f.cf as u64)) & m;
        self.f.cf = v & signbit(size) != 0;
        self.f.of = ((res & signbit(size)) != 0) != self.f.cf;
        res
      }
      3 => { // rcr by 1 only
        if cnt != 1 { self.fault = true; return v; }
        let res = (v >> 1) | if self.f.cf { signbit(size) } else { 0 };
        self.f.of = ((v & signbit(size)) != 0) != self.f.cf;
        self.f.cf = v & 1 != 0;
        res
      }
      4 | 6 => { // shl
        let res = if cnt >= bits { 0 } else { (v << cnt) & m };
        self.f.cf = if cnt <= bits { (v >> (bits - cnt)) & 1 != 0 } else { false };
        if cnt == 1 { self.f.of = ((res & signbit(size)) != 0) != self.f.cf; } else { self.f.of = env.undef_bool(); }
        self.f.af = env.undef_bool();
        self.szp(res, size);
        res
      }
      5 => { // shr
        let res = if cnt >= bits { 0 } else { v >> cnt };
        self.f.cf = (v >> (cnt - 1)) & 1 != 0;
        if cnt == 1 { self.f.of = v & signbit(size) != 0; } else { self.f.of = env.undef_bool(); }
        self.f.af = env.undef_bool();
        self.szp(res, size);
        res
      }
      _ => { // sar
        let neg = v & signbit(size) != 0;
        let c = if cnt >= bits { bits - 1 } else { cnt };
        let mut res = v >> c;
        if neg { res |= m & !(m >> c); }
        self.f.cf = (v >> (c - 1).min(bits - 1)) & 1 != 0;
        if cnt == 1 { self.f.of = false; } else { self.f.of = env.undef_bool(); }
        self.f.af = env.undef_bool();
        self.szp(res, size);
        res
      }
    }
  }
}

struct Dec<'a> { code: &'a [u8], pc: usize, ovr: [(usize, u8); 4] }
impl<'a> Dec<'a> {
  fn u8(&mut self) -> u8 { let b = if self.pc == self.ovr[0].0 { self.ovr[0].1 } else if self.pc == self.ovr[1].0 { self.ovr[1].1 } else if self.pc == self.ovr[2].0 { self.ovr[2].1 } else if self.pc == self.ovr[3].0 { self.ovr[3].1 } else { self.code[self.pc] }; self.pc += 1; b }
  fn i8(&mut self) -> i64 { self.u8() as i8 as i64 }
  fn u16(&mut self) -> u64 { let a = self.u8() as u64; let b = self.u8() as u64; a | (b << 8) }
  fn u32(&mut self) -> u64 { let a = self.u16(); let b = self.u16(); a | (b << 16) }
  fn i32(&mut self) -> i64 { self.u32() as u32 as i32 as i64 }
  fn u64(&mut self) -> u64 { let a = self.u32(); let b = self.u32(); a | (b << 32) }
}

fn reg8(idx: usize, rex: bool) -> Opnd {
  if !rex && idx >= 4 && idx < 8 { Opnd::Reg8Hi(idx - 4) } else { Opnd::Reg(idx) }
}

/// Runs code[pc..end) until falling off the end; recursion on conditional jumps keeps pc concrete.
pub fn run(cpu: &mut Cpu, code: &[u8], ovr: [(usize, u8); 4], start: usize, end: usize, env: &mut dyn Env, fuel: u32) -> Stop {
  let mut d = Dec { code, pc: start, ovr };
  let mut fuel = fuel;
  loop {
    if d.pc >= end { return Stop::End; }
    if fuel == 0 { return Stop::Unsupported(d.pc); }
    fuel -= 1;
    let ins_start = d.pc;
    let mut opsize16 = false;
    let mut rex: u8 = 0;
    let mut b = d.u8();
    if b == 0x66 { opsize16 = true; b = d.u8(); }
    if b & 0xf0 == 0x40 { rex = b; b = d.u8(); }
    let rex_w = rex & 8 != 0; let rex_r = if rex & 4 != 0 { 8 } else { 0 }; let rex_b = if rex & 1 != 0 { 8 } else { 0 };
    let has_rex = rex != 0;
    let osz: u8 = if rex_w { 8 } else if opsize16 { 2 } else { 4 };

    // helper to decode modrm into (reg field, rm operand)
    macro_rules! modrm {
      ($size:expr) => {{
        let m = d.u8();
        let md = m >> 6; let reg = ((m >> 3) & 7) as usize; let rm = (m & 7) as usize;
        let rmop = if md == 3 {
          if $size == 1 { reg8(rm + rex_b, has_rex) } else { Opnd::Reg(rm + rex_b) }
        } else if rm == 4 {
          let sib = d.u8();
          if sib != 0x24 { return Stop::Unsupported(ins_start); }
          let disp = if md == 1 { d.i8() } else if md == 0 { 0 } else { return Stop::Unsupported(ins_start); };
          if disp < 0 { return Stop::StackFault; }
          Opnd::StackByteOff(disp as usize)
        } else if rm == 7 && rex_b == 0 && md <= 1 {
          // [rdi] / [rdi + disp8]: the guest register file
          let disp = if md == 1 { d.i8() } else { 0 };
          if disp < 0 || disp > 28 { return Stop::StackFault; }
          Opnd::Struct(disp as usize)
        } else { return Stop::Unsupported(ins_start); };
        (reg, rmop)
      }};
    }

    match b {
      0x00..=0x3f if (b & 7) < 6 => {
        let op = b >> 3; let form = b & 7;
        match form {
          0 | 1 | 2 | 3 => {
            let size = if form & 1 == 0 { 1 } else { osz };
            let (reg, rmop) = modrm!(size);
            let regop = if size == 1 { reg8(reg + rex_r, has_rex) } else { Opnd::Reg(reg + rex_r) };
            let (dst, src) = if form < 2 { (rmop, regop) } else { (regop, rmop) };
            let a = cpu.get(dst, size); let s = cpu.get(src, size);
            if let Some(r) = cpu.alu(op, a, s, size, env) { cpu.set(dst, size, r); }
          }
          4 => { let imm = d.u8() as u64; let a = cpu.get(Opnd::Reg(RAX), 1); if let Some(r) = cpu.alu(op, a, imm, 1, env) { cpu.set(Opnd::Reg(RAX), 1, r); } }
          _ => {
            let imm = if osz == 2 { d.u16() } else { d.i32() as u64 };
            let a = cpu.get(Opnd::Reg(RAX), osz);
            if let Some(r) = cpu.alu(op, a, imm, osz, env) { cpu.set(Opnd::Reg(RAX), osz, r); }
          }
        }
      }
      0x50..=0x57 => { let v = cpu.r[(b - 0x50) as usize + rex_b]; cpu.push(v); }
      0x58..=0x5f => { let v = cpu.pop(); cpu.r[(b - 0x58) as usize + rex_b] = v; }
      0x70..=0x7f => {
        let rel = d.i8();
        let target = (d.pc as i64 + rel) as usize;
        if cpu.cond(b & 0xf) {
          return run(cpu, code, ovr, target, end, env, fuel);
        } else {
          return run(cpu, code, ovr, d.pc, end, env, fuel);
        }
      }
      0xeb => { let rel = d.i8(); d.pc = (d.pc as i64 + rel) as usize; }
      0x80 | 0x81 | 0x83 => {
        let size = if b == 0x80 { 1 } else { osz };
        let (reg, rmop) = modrm!(size);
        let imm = if b == 0x81 { if osz == 2 { d.u16() } else { d.i32() as u64 } } else if b == 0x83 { d.i8() as u64 } else { d.u8() as u64 };
        let a = cpu.get(rmop, size);
        if let Some(r) = cpu.alu(reg as u8, a, imm, size, env) { cpu.set(rmop, size, r); }
      }
      0x84 | 0x85 => {
        let size = if b == 0x84 { 1 } else { osz };
        let (reg, rmop) = modrm!(size);
        let regop = if size == 1 { reg8(reg + rex_r, has_rex) } else { Opnd::Reg(reg + rex_r) };
        let a = cpu.get(rmop, size); let s = cpu.get(regop, size);
        let _ = cpu.alu(4, a, s, size, env);
      }
      0x88 | 0x89 | 0x8a | 0x8b => {
        let size = if b & 1 == 0 { 1 } else { osz };
        let (reg, rmop) = modrm!(size);
        let regop = if size == 1 { reg8(reg + rex_r, has_rex) } else { Opnd::Reg(reg + rex_r) };
        if b < 0x8a { let v = cpu.get(regop, size); cpu.set(rmop, size, v); } else { let v = cpu.get(rmop, size); cpu.set(regop, size, v); }
      }
      0x90 => {}
      0x9c => { let v = cpu.rflags(); cpu.push(v); }
      0x9d => { let v = cpu.pop(); cpu.set_rflags(v); }
      0xa8 => { let imm = d.u8() as u64; let a = cpu.get(Opnd::Reg(RAX), 1); let _ = cpu.alu(4, a, imm, 1, env); }
      0xb0..=0xb7 => { let imm = d.u8() as u64; cpu.set(reg8((b - 0xb0) as usize + rex_b, has_rex), 1, imm); }
      0xb8..=0xbf => {
        let idx = (b - 0xb8) as usize + rex_b;
        let imm = if rex_w { d.u64() } else if opsize16 { d.u16() } else { d.u32() };
        cpu.set(Opnd::Reg(idx), osz, imm);
      }
      0xc0 | 0xc1 | 0xd0 | 0xd1 => {
        let size = if b & 1 == 0 { 1 } else { osz };
        let (reg, rmop) = modrm!(size);
        let count = if b < 0xd0 { d.u8() } else { 1 };
        let v = cpu.get(rmop, size);
        let r = cpu.shift(reg as u8, v, count, size, env);
        cpu.set(rmop, size, r);
      }
      0xc3 => { return Stop::Ret; }
      0xf6 => {
        let (reg, rmop) = modrm!(1);
        match reg {
          0 => { let imm = d.u8() as u64; let a = cpu.get(rmop, 1); let _ = cpu.alu(4, a, imm, 1, env); }
          2 => { let a = cpu.get(rmop, 1); cpu.set(rmop, 1, !a); }
          _ => return Stop::Unsupported(ins_start),
        }
      }
      0xfe | 0xff => {
        let size = if b == 0xfe { 1 } else { osz };
        let (reg, rmop) = modrm!(size);
        match reg {
          0 | 1 => {
            let a = cpu.get(rmop, size);
            let cf = cpu.f.cf;
            let r = cpu.alu(if reg == 0 { 0 } else { 5 }, a, 1, size, env).unwrap();
            cpu.f.cf = cf;
            cpu.set(rmop, size, r);
          }
          2 if b == 0xff => {
            if let Opnd::Reg(i) = rmop { let t = cpu.r[i]; env.call(t, cpu); } else { return Stop::Unsupported(ins_start); }
          }
          4 if b == 0xff => { if let Opnd::Reg(i) = rmop { return Stop::JmpReg(i); } else { return Stop::Unsupported(ins_start); } }
          _ => return Stop::Unsupported(ins_start),
        }
      }
      0x0f => {
        let b2 = d.u8();
        match b2 {
          0x90..=0x9f => { let (_reg, rmop) = modrm!(1); let v = cpu.cond(b2 & 0xf) as u64; cpu.set(rmop, 1, v); }
          0xba => {
            let (reg, rmop) = modrm!(osz);
            if reg != 4 { return Stop::Unsupported(ins_start); }
            let bit = d.u8() as u32 & (osz as u32 * 8 - 1);
            let v = cpu.get(rmop, osz);
            cpu.f.cf = (v >> bit) & 1 != 0;
            cpu.f.of = env.undef_bool(); cpu.f.sf = env.undef_bool(); cpu.f.af = env.undef_bool(); cpu.f.pf = env.undef_bool();
          }
          0xb6 | 0xb7 => {
            let ssz = if b2 == 0xb6 { 1 } else { 2 };
            let (reg, rmop) = modrm!(ssz);
            let v = cpu.get(rmop, ssz);
            cpu.set(Opnd::Reg(reg + rex_r), if osz == 2 { 2 } else { osz }, v);
          }
          _ => return Stop::Unsupported(ins_start),
        }
      }
      _ => return Stop::Unsupported(ins_start),
    }
    if cpu.fault { return Stop::StackFault; }
  }
}
