//! JIT side of the CPU harnesses (C01/C02): the template bytes the real emitter
//! produced (embedded as constants by the check run) are executed by `x86sem`
//! from an arbitrary host state related to the guest state by the register
//! assignment RAX=AF RBX=BC RDX=DE RCX=HL R12=SP R13=IP R14=status R15=cycles,
//! and compared with the real interpreter run on the same guest state.
//! In the native replay build the real `CodeCache` translates the instruction
//! from a real ROM image and the real machine code runs on the host CPU.
use crate::cpu::Registers;
use crate::mem::MemoryAreas;
use super::cpuh::{self, Run};
use super::sm83ref::{self, Regs, Out};
use super::x86sem::{self, Cpu, Env, Flags, Stop};

pub const TAG_READ_BYTE: u64 = 0x7a7a_0000_0000_0001;
pub const TAG_WRITE_BYTE: u64 = 0x7a7a_0000_0000_0002;
pub const TAG_READ_WORD: u64 = 0x7a7a_0000_0000_0003;
pub const TAG_WRITE_WORD: u64 = 0x7a7a_0000_0000_0004;
pub const TAG_PUSH_WORD: u64 = 0x7a7a_0000_0000_0005;
pub const TAG_MEM: u64 = 0x7a7a_0000_0000_0010;

pub const POOL: usize = 40;

pub struct JitEnv { pub pool: [u64; POOL], pub pi: usize, pub abi_ptr_ok: bool, pub abi_ext_ok: bool, pub aligned_ok: bool, pub unknown_target: bool, pub calls: usize }
impl JitEnv {
  fn next(&mut self) -> u64 { let v = self.pool[self.pi % POOL]; self.pi += 1; v }
  fn havoc_caller_saved(&mut self, cpu: &mut Cpu, keep_rax: bool) {
    if !keep_rax { cpu.r[x86sem::RAX] = self.next(); }
    cpu.r[x86sem::RCX] = self.next(); cpu.r[x86sem::RDX] = self.next();
    cpu.r[x86sem::RSI] = self.next(); cpu.r[x86sem::RDI] = self.next();
    cpu.r[8] = self.next(); cpu.r[9] = self.next(); cpu.r[10] = self.next(); cpu.r[11] = self.next();
    let fl = self.next();
    cpu.f = Flags { cf: fl & 1 != 0, pf: fl & 2 != 0, af: fl & 4 != 0, zf: fl & 8 != 0, sf: fl & 16 != 0, of: fl & 32 != 0 };
  }
}
impl Env for JitEnv {
  fn call(&mut self, target: u64, cpu: &mut Cpu) {
    self.calls += 1;
    let mem = 16usize as *mut MemoryAreas;
    if cpu.r[x86sem::RDI] != TAG_MEM { self.abi_ptr_ok = false; }
    // block entry has rsp = 8 (mod 16); `call` must see rsp = 0 (mod 16): an odd number of pushes since entry
    if (x86sem::STACK_SLOTS - cpu.sp) % 2 == 0 { self.aligned_ok = false; }
    let rsi = cpu.r[x86sem::RSI];
    let rdx = cpu.r[x86sem::RDX];
    match target {
      TAG_READ_BYTE => {
        if rsi & 0xffff_0000 != 0 { self.abi_ext_ok = false; }
        let v = crate::mem::memory_read_byte(mem, rsi as u16);
        self.havoc_caller_saved(cpu, false);
        cpu.r[x86sem::RAX] = (cpu.r[x86sem::RAX] & !0xff) | v as u64;
      }
      TAG_WRITE_BYTE => {
        if rsi & 0xffff_0000 != 0 || rdx & 0xffff_ff00 != 0 { self.abi_ext_ok = false; }
        crate::mem::memory_write_byte(mem, rsi as u16, rdx as u8);
        self.havoc_caller_saved(cpu, false);
      }
      TAG_READ_WORD => {
        if rsi & 0xffff_0000 != 0 { self.abi_ext_ok = false; }
        let v = crate::mem::memory_read_word(mem, rsi as u16);
        self.havoc_caller_saved(cpu, false);
        cpu.r[x86sem::RAX] = (cpu.r[x86sem::RAX] & !0xffff) | v as u64;
      }
      TAG_WRITE_WORD => {
        if rsi & 0xffff_0000 != 0 || rdx & 0xffff_0000 != 0 { self.abi_ext_ok = false; }
        crate::mem::memory_write_word(mem, rsi as u16, rdx as u16);
        self.havoc_caller_saved(cpu, false);
      }
      TAG_PUSH_WORD => {
        if rsi & 0xffff_0000 != 0 || rdx & 0xffff_0000 != 0 { self.abi_ext_ok = false; }
        crate::mem::memory_push_word(mem, rsi as u16, rdx as u16);
        self.havoc_caller_saved(cpu, false);
      }
      _ => { self.unknown_target = true; }
    }
  }
  fn undef_bool(&mut self) -> bool { self.next() & 1 != 0 }
}

pub struct JitRun { pub run: Run, pub stop_ok: bool, pub unsupported: bool, pub rsp_ok: bool, pub callee_saved_ok: bool, pub abi_ptr_ok: bool, pub abi_ext_ok: bool, pub aligned_ok: bool, pub invariant_ok: bool }

/// Everything nondeterministic on the host side, drawn up front so that the
/// sequence of `kani::any()` calls is the same in the solver and in native replay.
pub struct HostNd { pub pool: [u64; POOL], pub stack: [u64; x86sem::STACK_SLOTS], pub flags: u8 }
pub fn any_host() -> HostNd { HostNd { pool: kani::any(), stack: kani::any(), flags: kani::any() } }

#[cfg(not(verif_playback))]
pub fn run_jit(tmpl: &'static [u8], ovr: [(usize, u8); 4], _code: [u8; 3], r0: &Regs, c0: u32, h: &HostNd, _expect: &Out, _is_end: bool) -> JitRun {
  cpuh::bus_start_replay();
  let mut env = JitEnv { pool: h.pool, pi: 12, abi_ptr_ok: true, abi_ext_ok: true, aligned_ok: true, unknown_target: false, calls: 0 };
  let p = &h.pool;
  let mut cpu = Cpu {
    r: [0; 16],
    f: Flags { cf: h.flags & 1 != 0, pf: h.flags & 2 != 0, af: h.flags & 4 != 0, zf: h.flags & 8 != 0, sf: h.flags & 16 != 0, of: h.flags & 32 != 0 },
    stack: h.stack, sp: 12, fault: false, smem: [0; 32],
  };
  // what the prologue establishes: 32-bit loads zero-extend, 16-bit loads keep the upper bits
  cpu.r[x86sem::RAX] = ((r0.a as u64) << 8) | r0.f as u64;
  cpu.r[x86sem::RBX] = ((r0.b as u64) << 8) | r0.c as u64;
  cpu.r[x86sem::RDX] = ((r0.d as u64) << 8) | r0.e as u64;
  cpu.r[x86sem::RCX] = ((r0.h as u64) << 8) | r0.l as u64;
  cpu.r[x86sem::R12] = (p[0] & !0xffff) | r0.sp as u64;
  cpu.r[x86sem::R13] = (p[1] & !0xffff) | r0.pc as u64;
  cpu.r[x86sem::R15] = (p[2] & !0xffff) | c0 as u64;
  cpu.r[x86sem::R14] = 0;
  cpu.r[x86sem::RSI] = p[3]; cpu.r[x86sem::RDI] = p[4]; cpu.r[x86sem::RBP] = p[5];
  cpu.r[8] = p[6]; cpu.r[9] = p[7]; cpu.r[10] = p[8]; cpu.r[11] = p[9];
  let rbp0 = cpu.r[x86sem::RBP];
  let stop = x86sem::run(&mut cpu, tmpl, ovr, 0, tmpl.len(), &mut env, 400);
  let regs = Registers {
    af: cpu.r[x86sem::RAX] as u32, bc: cpu.r[x86sem::RBX] as u32, de: cpu.r[x86sem::RDX] as u32, hl: cpu.r[x86sem::RCX] as u32,
    sp: (cpu.r[x86sem::R12] & 0xffff) as u32, ip: (cpu.r[x86sem::R13] & 0xffff) as u32, cycles: (cpu.r[x86sem::R15] & 0xffff) as u32,
  };
  let status = cpu.r[x86sem::R14] as u8;
  let unsupported = matches!(stop, Stop::Unsupported(_)) || env.unknown_target;
  JitRun {
    run: Run { regs, status, brk: false, returned: true, bus_ok: cpuh::bus_replay_complete(), replayable: true },
    stop_ok: stop == Stop::End,
    unsupported,
    rsp_ok: cpu.sp == 12 && !cpu.fault,
    callee_saved_ok: cpu.r[x86sem::RBP] == rbp0,
    abi_ptr_ok: env.abi_ptr_ok, abi_ext_ok: env.abi_ext_ok, aligned_ok: env.aligned_ok,
    invariant_ok: cpu.r[x86sem::RAX] >> 16 == 0 && cpu.r[x86sem::RBX] >> 16 == 0 && cpu.r[x86sem::RDX] >> 16 == 0 && cpu.r[x86sem::RCX] >> 16 == 0,
  }
}

/// Native replay: real ROM image, real translation, real machine code on the host CPU.
#[cfg(verif_playback)]
pub fn run_jit(_tmpl: &'static [u8], _ovr: [(usize, u8); 4], code: [u8; 3], r0: &Regs, c0: u32, _h: &HostNd, expect: &Out, is_end: bool) -> JitRun {
  let mut regs = cpuh::to_registers(r0, c0);
  let bad = JitRun { run: Run { regs: cpuh::to_registers(r0, c0), status: 0, brk: false, returned: false, bus_ok: true, replayable: false },
                     stop_ok: true, unsupported: false, rsp_ok: true, callee_saved_ok: true, abi_ptr_ok: true, abi_ext_ok: true, aligned_ok: true, invariant_ok: true };
  if r0.pc > 0x7ff0 { eprintln!("VERIF-NOREPLAY pc outside ROM"); return bad; }
  let mut m = cpuh::native::areas();
  if !cpuh::native::place(&mut m, r0.pc, code, expect) { return bad; }
  if !is_end { cpuh::native::poke_code(&mut m, r0.pc.wrapping_add(expect.len), 0x76); }
  let mut cache = crate::cache::CodeCache::new();
  // translate while bank 2 is mapped (same code, complemented data), execute with bank 3 mapped like the interpreter
  cpuh::native::map_bank(&mut m, 2);
  let addr = cache.translate_code_block(&m.rom, r0.pc as usize, m.as_ptr());
  cpuh::native::map_bank(&mut m, 3);
  let status = cache.call(addr, &mut regs);
  let bus_ok = cpuh::native::writes_landed(&m, expect);
  core::mem::forget(m);
  JitRun { run: Run { regs, status, brk: false, returned: true, bus_ok, replayable: true },
           stop_ok: true, unsupported: false, rsp_ok: true, callee_saved_ok: true, abi_ptr_ok: true, abi_ext_ok: true, aligned_ok: true, invariant_ok: true }
}

/// Block framing (C01-B): prologue -> block exit stub -> epilogue, on an arbitrary host state and an arbitrary
/// register file: the guest registers are loaded from / stored to the struct at the offsets of `cpu::Registers`,
/// callee-saved host registers and the stack pointer are restored, the status is returned in al.
#[cfg(not(verif_playback))]
pub fn check_framing(prologue: &'static [u8], blockexit: &'static [u8], epilogue: &'static [u8]) {
  let h = any_host();
  let smem: [u8; 32] = kani::any();
  let guest: [u64; 8] = kani::any(); // what a block leaves in rax rbx rdx rcx r12 r13 r14 r15
  let mut env = JitEnv { pool: h.pool, pi: 20, abi_ptr_ok: true, abi_ext_ok: true, aligned_ok: true, unknown_target: false, calls: 0 };
  let p = &h.pool;
  let mut cpu = Cpu { r: [0; 16], f: Flags { cf: false, pf: false, af: false, zf: false, sf: false, of: false }, stack: h.stack, sp: 12, fault: false, smem };
  let mut i = 0;
  while i < 16 { cpu.r[i] = p[i]; i += 1; }
  const BLOCK: u64 = 0x7b7b_0000_0000_0001;
  const EPI: u64 = 0x7b7b_0000_0000_0002;
  cpu.r[x86sem::RSI] = BLOCK; // 2nd argument: block address
  cpu.r[x86sem::RDX] = EPI;   // 3rd argument: epilogue address
  let saved = [cpu.r[x86sem::RBX], cpu.r[x86sem::RBP], cpu.r[12], cpu.r[13], cpu.r[14], cpu.r[15]];
  let no = [(usize::MAX, 0u8); 4];
  let s1 = x86sem::run(&mut cpu, prologue, no, 0, prologue.len(), &mut env, 100);
  crate::vassert!(s1 == Stop::JmpReg(x86sem::RSI) && cpu.r[x86sem::RSI] == BLOCK, "C01.frame.prologue_jumps_to_block");
  let f32 = |o: usize| -> u32 { (smem[o] as u32) | ((smem[o + 1] as u32) << 8) | ((smem[o + 2] as u32) << 16) | ((smem[o + 3] as u32) << 24) };
  let off = |name: u8| -> usize { match name { 0 => core::mem::offset_of!(Registers, af), 1 => core::mem::offset_of!(Registers, bc), 2 => core::mem::offset_of!(Registers, de), 3 => core::mem::offset_of!(Registers, hl), 4 => core::mem::offset_of!(Registers, sp), 5 => core::mem::offset_of!(Registers, ip), _ => core::mem::offset_of!(Registers, cycles) } };
  crate::vassert!(cpu.r[x86sem::RAX] == f32(off(0)) as u64 && cpu.r[x86sem::RBX] == f32(off(1)) as u64 && cpu.r[x86sem::RDX] == f32(off(2)) as u64 && cpu.r[x86sem::RCX] == f32(off(3)) as u64, "C01.frame.prologue_loads_pairs");
  crate::vassert!(cpu.r[12] & 0xffff == (f32(off(4)) & 0xffff) as u64 && cpu.r[13] & 0xffff == (f32(off(5)) & 0xffff) as u64, "C01.frame.prologue_loads_sp_ip");
  crate::vassert!(cpu.r[15] & 0xffff == (f32(off(6)) & 0xffff) as u64, "C02.frame.prologue_loads_pending_cycles");
  crate::vassert!(cpu.r[14] == 0, "C01.frame.prologue_clears_status");
  // the block leaves arbitrary guest values (upper halves of the pairs zero: the per-template invariant)
  cpu.r[x86sem::RAX] = guest[0] & 0xffff; cpu.r[x86sem::RBX] = guest[1] & 0xffff; cpu.r[x86sem::RDX] = guest[2] & 0xffff; cpu.r[x86sem::RCX] = guest[3] & 0xffff;
  cpu.r[12] = guest[4]; cpu.r[13] = guest[5]; cpu.r[14] = guest[6]; cpu.r[15] = guest[7];
  cpu.r[x86sem::RSI] = p[16]; cpu.r[x86sem::RDI] = p[17]; cpu.r[x86sem::RBP] = saved[1];
  let s2 = x86sem::run(&mut cpu, blockexit, no, 0, blockexit.len(), &mut env, 20);
  crate::vassert!(s2 == Stop::JmpReg(x86sem::RDI) && cpu.r[x86sem::RDI] == EPI, "C01.frame.block_exit_jumps_to_epilogue");
  let s3 = x86sem::run(&mut cpu, epilogue, no, 0, epilogue.len(), &mut env, 100);
  crate::vassert!(s3 == Stop::Ret, "C01.frame.epilogue_returns");
  let g32 = |o: usize, c: &Cpu| -> u32 { (c.smem[o] as u32) | ((c.smem[o + 1] as u32) << 8) | ((c.smem[o + 2] as u32) << 16) | ((c.smem[o + 3] as u32) << 24) };
  crate::vassert!(g32(off(0), &cpu) == (guest[0] & 0xffff) as u32 && g32(off(1), &cpu) == (guest[1] & 0xffff) as u32 && g32(off(2), &cpu) == (guest[2] & 0xffff) as u32 && g32(off(3), &cpu) == (guest[3] & 0xffff) as u32, "C01.frame.epilogue_stores_pairs");
  crate::vassert!(g32(off(4), &cpu) & 0xffff == (guest[4] & 0xffff) as u32 && g32(off(5), &cpu) & 0xffff == (guest[5] & 0xffff) as u32 && g32(off(6), &cpu) & 0xffff == (guest[7] & 0xffff) as u32, "C01.frame.epilogue_stores_sp_ip_cycles");
  crate::vassert!(g32(off(4), &cpu) >> 16 == f32(off(4)) >> 16 && g32(off(5), &cpu) >> 16 == f32(off(5)) >> 16 && g32(off(6), &cpu) >> 16 == f32(off(6)) >> 16, "C01.frame.upper_halves_of_fields_kept");
  crate::vassert!(cpu.r[x86sem::RAX] as u8 == guest[6] as u8, "C01.frame.status_returned");
  crate::vassert!(cpu.r[x86sem::RBX] == saved[0] && cpu.r[x86sem::RBP] == saved[1] && cpu.r[12] == saved[2] && cpu.r[13] == saved[3] && cpu.r[14] == saved[4] && cpu.r[15] == saved[5], "C01.frame.callee_saved_restored");
  crate::vassert!(cpu.sp == 12 && !cpu.fault, "C01.frame.stack_pointer_restored");
  kani::cover!(true, "reached");
}
/// Native twin of the framing check: a one-instruction block (HALT) run through the REAL prologue, block exit and
/// epilogue (`CodeCache::call`) from the counterexample's register file; every field must come back as the
/// interpreter leaves it.  A mismatch is attributed to the framing obligations that cover that field.
#[cfg(verif_playback)]
pub fn check_framing(_p: &'static [u8], _b: &'static [u8], _e: &'static [u8]) {
  let _h = any_host();
  let smem: [u8; 32] = kani::any();
  let _g: [u64; 8] = kani::any();
  let f16 = |o: usize| -> u32 { (smem[o] as u32) | ((smem[o + 1] as u32) << 8) };
  let mut m = cpuh::native::areas();
  cpuh::native::poke(&mut m, 0x0150, 0x76);
  let mk = || Registers { af: f16(0) & 0xfff0, bc: f16(4), de: f16(8), hl: f16(12), sp: f16(16), ip: 0x0150, cycles: if f16(24) == 0xffff { 0xfffe } else { f16(24) } };
  let mut rj = mk();
  let mut ri = mk();
  let mut cache = crate::cache::CodeCache::new();
  let addr = cache.translate_code_block(&m.rom, 0x0150, m.as_ptr());
  let sj = cache.call(addr, &mut rj);
  let si = crate::interpreter::run_code_block(&mut ri, &mut m as *mut MemoryAreas);
  let (a1, b1, d1, h1, s1, i1, c1) = (rj.af, rj.bc, rj.de, rj.hl, rj.sp, rj.ip, rj.cycles);
  let (a2, b2, d2, h2, s2, i2, c2) = (ri.af, ri.bc, ri.de, ri.hl, ri.sp, ri.ip, ri.cycles);
  if a1 != a2 || b1 != b2 || d1 != d2 || h1 != h2 { eprintln!("VERIF-FAIL C01.frame.prologue_loads_pairs"); eprintln!("VERIF-FAIL C01.frame.epilogue_stores_pairs"); }
  if s1 != s2 || i1 != i2 { eprintln!("VERIF-FAIL C01.frame.prologue_loads_sp_ip"); eprintln!("VERIF-FAIL C01.frame.epilogue_stores_sp_ip_cycles"); }
  if c1 & 0xffff != c2 & 0xffff { eprintln!("VERIF-FAIL C02.frame.prologue_loads_pending_cycles"); eprintln!("VERIF-FAIL C01.frame.epilogue_stores_sp_ip_cycles"); }
  if core_status(sj) != core_status(si) { eprintln!("VERIF-FAIL C01.frame.status_returned"); eprintln!("VERIF-FAIL C01.frame.prologue_clears_status"); }
  core::mem::forget(m);
}

/// How `Core::run_code_block` interprets a returned status byte.
pub fn core_status(s: u8) -> u8 { match s { 1 => 1, 2 => 2, 3 => 3, 4 | 5 => 4, _ => 0 } }

/// One template against the interpreter; every obligation is tagged with the opcode (`$t`).
#[macro_export]
macro_rules! jcheck {
  ($tmpl:expr, $immpos:expr, $op:expr, $cb:expr, $fixed:expr, $is_end:expr, $t:literal) => {{
    use $crate::verif::{cpuh, jith, sm83ref};
    let r0 = cpuh::any_regs();
    kani::assume(r0.pc <= 0x7ff0);
    let b1: u8 = kani::any();
    let b2: u8 = kani::any();
    let rd: [u8; 4] = kani::any();
    let c0: u32 = (kani::any::<u8>() & 0x3f) as u32;
    let h = jith::any_host();
    let fixed: Option<(u8, u8)> = $fixed;
    let cbv: Option<u8> = $cb;
    let immpos: [(usize, u8); 4] = $immpos;
    let (i1, i2) = match fixed { Some((x, y)) => (x, y), None => (b1, b2) };
    let code = match cbv { Some(second) => [$op, second, i2], None => [$op, i1, i2] };
    // the SM83 reference is only needed to rebuild the counterexample natively (which addresses to poke); the
    // obligation itself is JIT == interpreter, so the solver run skips it unless a realizable counterexample is asked for
    #[cfg(any(verif_playback, verif_realizable))]
    let o = sm83ref::step(code, r0, rd);
    #[cfg(not(any(verif_playback, verif_realizable)))]
    let o = sm83ref::no_events(r0);
    #[cfg(verif_realizable)]
    kani::assume(cpuh::realizable(&o, r0.pc));
    // interpreter first (records the bus log), then the translated code against that log
    let ri = cpuh::run_interp_for_jit(code, &r0, c0, rd, &o, $is_end);
    let mut ovr = [(usize::MAX, 0u8); 4];
    let mut k = 0;
    while k < 4 { if immpos[k].1 == 1 { ovr[k] = (immpos[k].0, code[1]); } else if immpos[k].1 == 2 { ovr[k] = (immpos[k].0, code[2]); } k += 1; }
    let rj = jith::run_jit($tmpl, ovr, code, &r0, c0, &h, &o, $is_end);
    if ri.replayable && rj.run.replayable {
      $crate::vassert!(!rj.unsupported, concat!("C01.x86sem.unsupported_instruction@", $t));
      let (a, b) = (&rj.run.regs, &ri.regs);
      let (af, bc, de, hl, sp, ip, cy) = (a.af, a.bc, a.de, a.hl, a.sp, a.ip, a.cycles);
      let (iaf, ibc, ide, ihl, isp, iip, icy) = (b.af, b.bc, b.de, b.hl, b.sp, b.ip, b.cycles);
      $crate::vchecks!(
        (rj.stop_ok, concat!("C01.host.template_runs_to_its_end@", $t)),
        (af == iaf, concat!("C01.af@", $t)),
        (bc == ibc, concat!("C01.bc@", $t)),
        (de == ide, concat!("C01.de@", $t)),
        (hl == ihl, concat!("C01.hl@", $t)),
        (sp == isp & 0xffff, concat!("C01.sp@", $t)),
        (ip == iip & 0xffff, concat!("C01.pc@", $t)),
        (jith::core_status(rj.run.status) == jith::core_status(ri.status), concat!("C01.status@", $t)),
        (rj.run.bus_ok, concat!("C01.bus_trace@", $t)),
        (rj.rsp_ok, concat!("C01.host.stack_pointer_restored@", $t)),
        (rj.callee_saved_ok, concat!("C01.host.callee_saved@", $t)),
        (rj.abi_ptr_ok, concat!("C01.host.helper_memory_pointer@", $t)),
        (rj.invariant_ok, concat!("C01.host.register_invariant_preserved@", $t)),
        (cy == icy & 0xffff, concat!("C02.cycles@", $t)),
      );
      // Observation, not an obligation: the SysV ABI does not promise zero-extension of 8/16-bit arguments, the compiled
      // callees (LLVM zeroext) rely on it; no native run on this tree shows harm, so it is reported in the evidence only.
      kani::cover!(!rj.abi_ext_ok, "abi.helper_argument_not_zero_extended");
      kani::cover!(!rj.aligned_ok, "abi.stack_misaligned_at_helper_call");
    } else {
      // native replay only: this instruction's counterexample state cannot be rebuilt on the replay image; consume the
      // obligation selector anyway so that the values of the following instructions of this harness stay aligned
      let _unused_selector: u8 = kani::any();
    }
  }};
}
