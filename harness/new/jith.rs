//! JIT side of the CPU harnesses (C01/C02): the template bytes the real emitter
//! produced (embedded as constants by the check run) are executed by `x86sem`
//! from an arbitrary host state related to the guest state by the register
//! assignment RAX=AF RBX=BC RDX=DE RCX=HL R12=SP R13=IP R14=status R15=cycles,
//! and compared with the real interpreter run on the same guest state.
//! In the native replay build the real `CodeCache` translates the instruction
//! from a real ROM image and the real machine code runs on the host CPU.
use crate::cpu::Registers;
use crate::mem::MemoryAreas;
use super::cpuh::{self, Run};
use super::sm83ref::{self, Regs, Out};
use super::x86sem::{self, Cpu, Env, Flags, Stop};

pub const TAG_READ_BYTE: u64 = 0x7a7a_0000_0000_0001;
pub const TAG_WRITE_BYTE: u64 = 0x7a7a_0000_0000_0002;
pub const TAG_READ_WORD: u64 = 0x7a7a_0000_0000_0003;
pub const TAG_WRITE_WORD: u64 = 0x7a7a_0000_0000_0004;
pub const TAG_MEM: u64 = 0x7a7a_0000_0000_0010;

pub const POOL: usize = 40;

pub struct JitEnv { pub pool: [u64; POOL], pub pi: usize, pub abi_ptr_ok: bool, pub abi_ext_ok: bool, pub aligned_ok: bool, pub unknown_target: bool, pub calls: usize }
impl JitEnv {
  fn next(&mut self) -> u64 { let v = self.pool[self.pi % POOL]; self.pi += 1; v }
  fn havoc_caller_saved(&mut self, cpu: &mut Cpu, keep_rax: bool) {
    if !keep_rax { cpu.r[x86sem::RAX] = self.next(); }
    cpu.r[x86sem::RCX] = self.next(); cpu.r[x86sem::RDX] = self.next();
    cpu.r[x86sem::RSI] = self.next(); cpu.r[x86sem::RDI] = self.next();
    cpu.r[8] = self.next(); cpu.r[9] = self.next(); cpu.r[10] = self.next(); cpu.r[11] = self.next();
    let fl = self.next();
    cpu.f = Flags { cf: fl & 1 != 0, pf: fl & 2 != 0, af: fl & 4 != 0, zf: fl & 8 != 0, sf: fl & 16 != 0, of: fl & 32 != 0 };
  }
}
impl Env for JitEnv {
  fn call(&mut self, target: u64, cpu: &mut Cpu) {
    self.calls += 1;
    let mem = 16usize as *mut MemoryAreas;
    if cpu.r[x86sem::RDI] != TAG_MEM { self.abi_ptr_ok = false; }
    // block entry has rsp = 8 (mod 16); `call` must see rsp = 0 (mod 16): an odd number of pushes since entry
    if (x86sem::STACK_SLOTS - cpu.sp) % 2 == 0 { self.aligned_ok = false; }
    let rsi = cpu.r[x86sem::RSI];
    let rdx = cpu.r[x86sem::RDX];
    match target {
      TAG_READ_BYTE => {
        if rsi & 0xffff_0000 != 0 { self.abi_ext_ok = false; }
        let v = crate::mem::memory_read_byte(mem, rsi as u16);
        self.havoc_caller_saved(cpu, false);
        cpu.r[x86sem::RAX] = (cpu.r[x86sem::RAX] & !0xff) | v as u64;
      }
      TAG_WRITE_BYTE => {
        if rsi & 0xffff_0000 != 0 || rdx & 0xffff_ff00 != 0 { self.abi_ext_ok = false; }
        crate::mem::memory_write_byte(mem, rsi as u16, rdx as u8);
        self.havoc_caller_saved(cpu, false);
      }
      TAG_READ_WORD => {
        if rsi & 0xffff_0000 != 0 { self.abi_ext_ok = false; }
        let v = crate::mem::memory_read_word(mem, rsi as u16);
        self.havoc_caller_saved(cpu, false);
        cpu.r[x86sem::RAX] = (cpu.r[x86sem::RAX] & !0xffff) | v as u64;
      }
      TAG_WRITE_WORD => {
        if rsi & 0xffff_0000 != 0 || rdx & 0xffff_0000 != 0 { self.abi_ext_ok = false; }
        crate::mem::memory_write_word(mem, rsi as u16, rdx as u16);
        self.havoc_caller_saved(cpu, false);
      }
      _ => { self.unknown_target = true; }
    }
  }
  fn undef_bool(&mut self) -> bool { self.next() & 1 != 0 }
}

pub struct JitRun { pub run: Run, pub stop_ok: bool, pub unsupported: bool, pub rsp_ok: bool, pub callee_saved_ok: bool, pub abi_ptr_ok: bool, pub abi_ext_ok: bool, pub aligned_ok: bool, pub invariant_ok: bool }

/// Everything nondeterministic on the host side, drawn up front so that the
/// sequence of `kani::any()` calls is the same in the solver and in native replay.
pub struct HostNd { pub pool: [u64; POOL], pub stack: [u64; x86sem::STACK_SLOTS], pub flags: u8 }
pub fn any_host() -> HostNd { HostNd { pool: kani::any(), stack: kani::any(), flags: kani::any() } }

#[cfg(not(verif_playback))]
pub fn run_jit(tmpl: &'static [u8], ovr: [(usize, u8); 4], _code: [u8; 3], r0: &Regs, c0: u32, h: &HostNd, _expect: &Out, _is_end: bool) -> JitRun {
  cpuh::bus_start_replay();
  let mut env = JitEnv { pool: h.pool, pi: 12, abi_ptr_ok: true, abi_ext_ok: true, aligned_ok: true, unknown_target: false, calls: 0 };
  let p = &h.pool;
  let mut cpu = Cpu {
    r: [0; 16],
    f: Flags { cf: h.flags & 1 != 0, pf: h.flags & 2 != 0, af: h.flags & 4 != 0, zf: h.flags & 8 != 0, sf: h.flags & 16 != 0, of: h.flags & 32 != 0 },
    stack: h.stack, sp: 12, fault: false,
  };
  // what the prologue establishes: 32-bit loads zero-extend, 16-bit loads keep the upper bits
  cpu.r[x86sem::RAX] = ((r0.a as u64) << 8) | r0.f as u64;
  cpu.r[x86sem::RBX] = ((r0.b as u64) << 8) | r0.c as u64;
  cpu.r[x86sem::RDX] = ((r0.d as u64) << 8) | r0.e as u64;
  cpu.r[x86sem::RCX] = ((r0.h as u64) << 8) | r0.l as u64;
  cpu.r[x86sem::R12] = (p[0] & !0xffff) | r0.sp as u64;
  cpu.r[x86sem::R13] = (p[1] & !0xffff) | r0.pc as u64;
  cpu.r[x86sem::R15] = (p[2] & !0xffff) | c0 as u64;
  cpu.r[x86sem::R14] = 0;
  cpu.r[x86sem::RSI] = p[3]; cpu.r[x86sem::RDI] = p[4]; cpu.r[x86sem::RBP] = p[5];
  cpu.r[8] = p[6]; cpu.r[9] = p[7]; cpu.r[10] = p[8]; cpu.r[11] = p[9];
  let rbp0 = cpu.r[x86sem::RBP];
  let stop = x86sem::run(&mut cpu, tmpl, ovr, 0, tmpl.len(), &mut env, 400);
  let regs = Registers {
    af: cpu.r[x86sem::RAX] as u32, bc: cpu.r[x86sem::RBX] as u32, de: cpu.r[x86sem::RDX] as u32, hl: cpu.r[x86sem::RCX] as u32,
    sp: (cpu.r[x86sem::R12] & 0xffff) as u32, ip: (cpu.r[x86sem::R13] & 0xffff) as u32, cycles: (cpu.r[x86sem::R15] & 0xffff) as u32,
  };
  let status = cpu.r[x86sem::R14] as u8;
  let unsupported = matches!(stop, Stop::Unsupported(_)) || env.unknown_target;
  JitRun {
    run: Run { regs, status, brk: false, returned: true, bus_ok: cpuh::bus_replay_complete(), replayable: true },
    stop_ok: stop == Stop::End,
    unsupported,
    rsp_ok: cpu.sp == 12 && !cpu.fault,
    callee_saved_ok: cpu.r[x86sem::RBP] == rbp0,
    abi_ptr_ok: env.abi_ptr_ok, abi_ext_ok: env.abi_ext_ok, aligned_ok: env.aligned_ok,
    invariant_ok: cpu.r[x86sem::RAX] >> 16 == 0 && cpu.r[x86sem::RBX] >> 16 == 0 && cpu.r[x86sem::RDX] >> 16 == 0 && cpu.r[x86sem::RCX] >> 16 == 0,
  }
}

/// Native replay: real ROM image, real translation, real machine code on the host CPU.
#[cfg(verif_playback)]
pub fn run_jit(_tmpl: &'static [u8], _ovr: [(usize, u8); 4], code: [u8; 3], r0: &Regs, c0: u32, _h: &HostNd, expect: &Out, is_end: bool) -> JitRun {
  let mut regs = cpuh::to_registers(r0, c0);
  let bad = JitRun { run: Run { regs: cpuh::to_registers(r0, c0), status: 0, brk: false, returned: false, bus_ok: true, replayable: false },
                     stop_ok: true, unsupported: false, rsp_ok: true, callee_saved_ok: true, abi_ptr_ok: true, abi_ext_ok: true, aligned_ok: true, invariant_ok: true };
  if r0.pc > 0x7ff0 { eprintln!("VERIF-NOREPLAY pc outside ROM"); return bad; }
  let mut m = cpuh::native::areas();
  if !cpuh::native::place(&mut m, r0.pc, code, expect) { return bad; }
  if !is_end { cpuh::native::poke(&mut m, r0.pc.wrapping_add(expect.len), 0x76); }
  let mut cache = crate::cache::CodeCache::new();
  let addr = cache.translate_code_block(&m.rom, r0.pc as usize, m.as_ptr());
  let status = cache.call(addr, &mut regs);
  let bus_ok = cpuh::native::writes_landed(&m, expect);
  core::mem::forget(m);
  JitRun { run: Run { regs, status, brk: false, returned: true, bus_ok, replayable: true },
           stop_ok: true, unsupported: false, rsp_ok: true, callee_saved_ok: true, abi_ptr_ok: true, abi_ext_ok: true, aligned_ok: true, invariant_ok: true }
}

/// How `Core::run_code_block` interprets a returned status byte.
pub fn core_status(s: u8) -> u8 { match s { 1 => 1, 2 => 2, 3 => 3, 4 | 5 => 4, _ => 0 } }

pub fn check(tmpl: &'static [u8], immpos: [(usize, u8); 4], op: u8, cb: Option<u8>, fixed: Option<(u8, u8)>, is_end: bool) {
  let mut r0 = cpuh::any_regs();
  kani::assume(r0.pc <= 0x7ff0);
  let b1: u8 = kani::any();
  let b2: u8 = kani::any();
  let rd: [u8; 4] = kani::any();
  let c0: u32 = (kani::any::<u8>() & 0x3f) as u32;
  let h = any_host();
  let (i1, i2) = match fixed { Some((x, y)) => (x, y), None => (b1, b2) };
  let code = match cb { Some(second) => [op, second, i2], None => [op, i1, i2] };
  let o = sm83ref::step(code, r0, rd);
  // interpreter first (records the bus log), then the translated code against that log
  let ri = cpuh::run_interp_for_jit(code, &r0, c0, rd, &o, is_end);
  let mut ovr = [(usize::MAX, 0u8); 4];
  let mut k = 0;
  while k < 4 { if immpos[k].1 == 1 { ovr[k] = (immpos[k].0, code[1]); } else if immpos[k].1 == 2 { ovr[k] = (immpos[k].0, code[2]); } k += 1; }
  let rj = run_jit(tmpl, ovr, code, &r0, c0, &h, &o, is_end);
  if !ri.replayable || !rj.run.replayable { return; }
  crate::vassert!(!rj.unsupported, "C01.x86sem.unsupported_instruction");
  crate::vassert!(rj.stop_ok, "C01.host.template_falls_through_to_its_end");
  let (a, b) = (&rj.run.regs, &ri.regs);
  let (af, bc, de, hl, sp, ip, cy) = (a.af, a.bc, a.de, a.hl, a.sp, a.ip, a.cycles);
  let (iaf, ibc, ide, ihl, isp, iip, icy) = (b.af, b.bc, b.de, b.hl, b.sp, b.ip, b.cycles);
  crate::vassert!(af == iaf, "C01.af");
  crate::vassert!(bc == ibc, "C01.bc");
  crate::vassert!(de == ide, "C01.de");
  crate::vassert!(hl == ihl, "C01.hl");
  crate::vassert!(sp == isp & 0xffff, "C01.sp");
  crate::vassert!(ip == iip & 0xffff, "C01.pc");
  crate::vassert!(core_status(rj.run.status) == core_status(ri.status), "C01.status");
  crate::vassert!(rj.run.bus_ok, "C01.bus_trace");
  crate::vassert!(rj.rsp_ok, "C01.host.stack_pointer_restored");
  crate::vassert!(rj.callee_saved_ok, "C01.host.callee_saved");
  crate::vassert!(rj.abi_ptr_ok, "C01.host.helper_memory_pointer");
  crate::vassert!(rj.abi_ext_ok, "C01.host.helper_argument_zero_extended");
  crate::vassert!(rj.invariant_ok, "C01.host.register_invariant_preserved");
  crate::vassert!(cy == icy & 0xffff, "C02.cycles");
  kani::cover!(rj.aligned_ok, "reached");
  kani::cover!(!rj.aligned_ok, "abi.stack_misaligned_at_helper_call");
}
