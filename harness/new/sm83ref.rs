//! Reference model of the SM83 (Game Boy CPU) instruction set, written from the
//! instruction-set definition (opcode bit fields x = op>>6, y = (op>>3)&7,
//! z = op&7).  It deliberately shares no structure with the repository's
//! decoder / interpreter: no `Op` enum, no per-instruction functions.
//! 16-bit registers are `u16` and wrap.

#[derive(Clone, Copy, PartialEq, Eq)]
pub struct Regs { pub a: u8, pub f: u8, pub b: u8, pub c: u8, pub d: u8, pub e: u8, pub h: u8, pub l: u8, pub sp: u16, pub pc: u16 }

pub const EV_READ: u8 = 1;
pub const EV_WRITE: u8 = 2;
pub const MAX_EV: usize = 6;

/// status signalled to the emulator core
pub const ST_NORMAL: u8 = 0;
pub const ST_STOP: u8 = 1;
pub const ST_HALT: u8 = 2;
pub const ST_DI: u8 = 3;
pub const ST_EI: u8 = 4;
pub const ST_RETI: u8 = 5; // interrupts enabled immediately

#[derive(Clone, Copy)]
pub struct Out {
  pub r: Regs,
  pub cycles: u32,        // machine cycles
  pub len: u16,           // encoded length
  pub nev: usize,
  pub ev_kind: [u8; MAX_EV],
  pub ev_addr: [u16; MAX_EV],
  pub ev_val: [u8; MAX_EV],
  pub block_end: bool,
  pub status: u8,
  pub defined: bool,
  pub nreads: usize,
}

struct M { o: Out, rd: [u8; 4] }
impl M {
  fn read(&mut self, addr: u16) -> u8 {
    let v = self.rd[self.o.nreads & 3];
    self.o.nreads += 1;
    if self.o.nev < MAX_EV { self.o.ev_kind[self.o.nev] = EV_READ; self.o.ev_addr[self.o.nev] = addr; self.o.ev_val[self.o.nev] = v; }
    self.o.nev += 1;
    v
  }
  fn write(&mut self, addr: u16, v: u8) {
    if self.o.nev < MAX_EV { self.o.ev_kind[self.o.nev] = EV_WRITE; self.o.ev_addr[self.o.nev] = addr; self.o.ev_val[self.o.nev] = v; }
    self.o.nev += 1;
  }
  fn hl(&self) -> u16 { ((self.o.r.h as u16) << 8) | self.o.r.l as u16 }
  fn set_hl(&mut self, v: u16) { self.o.r.h = (v >> 8) as u8; self.o.r.l = v as u8; }
  fn bc(&self) -> u16 { ((self.o.r.b as u16) << 8) | self.o.r.c as u16 }
  fn de(&self) -> u16 { ((self.o.r.d as u16) << 8) | self.o.r.e as u16 }
  /// r[] table: B C D E H L (HL) A
  fn get_r(&mut self, i: u8) -> u8 {
    match i & 7 { 0 => self.o.r.b, 1 => self.o.r.c, 2 => self.o.r.d, 3 => self.o.r.e, 4 => self.o.r.h, 5 => self.o.r.l, 6 => { let a = self.hl(); self.read(a) }, _ => self.o.r.a }
  }
  fn set_r(&mut self, i: u8, v: u8) {
    match i & 7 { 0 => self.o.r.b = v, 1 => self.o.r.c = v, 2 => self.o.r.d = v, 3 => self.o.r.e = v, 4 => self.o.r.h = v, 5 => self.o.r.l = v, 6 => { let a = self.hl(); self.write(a, v) }, _ => self.o.r.a = v }
  }
  /// rp[] table: BC DE HL SP
  fn get_rp(&self, p: u8) -> u16 { match p & 3 { 0 => self.bc(), 1 => self.de(), 2 => self.hl(), _ => self.o.r.sp } }
  fn set_rp(&mut self, p: u8, v: u16) {
    match p & 3 { 0 => { self.o.r.b = (v >> 8) as u8; self.o.r.c = v as u8; } 1 => { self.o.r.d = (v >> 8) as u8; self.o.r.e = v as u8; } 2 => self.set_hl(v), _ => self.o.r.sp = v }
  }
  fn flags(&mut self, z: bool, n: bool, h: bool, c: bool) {
    self.o.r.f = (if z { 0x80 } else { 0 }) | (if n { 0x40 } else { 0 }) | (if h { 0x20 } else { 0 }) | (if c { 0x10 } else { 0 });
  }
  fn fz(&self) -> bool { self.o.r.f & 0x80 != 0 }
  fn fn_(&self) -> bool { self.o.r.f & 0x40 != 0 }
  fn fh(&self) -> bool { self.o.r.f & 0x20 != 0 }
  fn fc(&self) -> bool { self.o.r.f & 0x10 != 0 }
  fn cond(&self, y: u8) -> bool { match y & 3 { 0 => !self.fz(), 1 => self.fz(), 2 => !self.fc(), _ => self.fc() } }
  fn push16(&mut self, v: u16) {
    let a1 = self.o.r.sp.wrapping_sub(1);
    self.write(a1, (v >> 8) as u8);
    let a2 = self.o.r.sp.wrapping_sub(2);
    self.write(a2, v as u8);
    self.o.r.sp = a2;
  }
  fn pop16(&mut self) -> u16 {
    let lo = self.read(self.o.r.sp) as u16;
    let hi = self.read(self.o.r.sp.wrapping_add(1)) as u16;
    self.o.r.sp = self.o.r.sp.wrapping_add(2);
    (hi << 8) | lo
  }
  /// 8-bit ALU: ADD ADC SUB SBC AND XOR OR CP
  fn alu(&mut self, y: u8, v: u8) {
    let a = self.o.r.a;
    let cin = if self.fc() { 1u16 } else { 0 };
    match y & 7 {
      0 | 1 => {
        let c = if y & 7 == 1 { cin } else { 0 };
        let r = a as u16 + v as u16 + c;
        let h = (a & 0xf) as u16 + (v & 0xf) as u16 + c > 0xf;
        self.o.r.a = r as u8;
        self.flags(r as u8 == 0, false, h, r > 0xff);
      }
      2 | 3 | 7 => {
        let c = if y & 7 == 3 { cin } else { 0 };
        let r = (a as u16).wrapping_sub(v as u16).wrapping_sub(c);
        let h = ((a & 0xf) as u16) < (v & 0xf) as u16 + c;
        let cy = (a as u16) < v as u16 + c;
        if y & 7 != 7 { self.o.r.a = r as u8; }
        self.flags(r as u8 == 0, true, h, cy);
      }
      4 => { let r = a & v; self.o.r.a = r; self.flags(r == 0, false, true, false); }
      5 => { let r = a ^ v; self.o.r.a = r; self.flags(r == 0, false, false, false); }
      _ => { let r = a | v; self.o.r.a = r; self.flags(r == 0, false, false, false); }
    }
  }
  /// CB rotate/shift group: RLC RRC RL RR SLA SRA SWAP SRL
  fn rot(&mut self, y: u8, v: u8) -> u8 {
    let cin = if self.fc() { 1u8 } else { 0 };
    let (r, c) = match y & 7 {
      0 => ((v << 1) | (v >> 7), v & 0x80 != 0),
      1 => ((v >> 1) | (v << 7), v & 1 != 0),
      2 => ((v << 1) | cin, v & 0x80 != 0),
      3 => ((v >> 1) | (cin << 7), v & 1 != 0),
      4 => (v << 1, v & 0x80 != 0),
      5 => ((v >> 1) | (v & 0x80), v & 1 != 0),
      6 => ((v << 4) | (v >> 4), false),
      _ => (v >> 1, v & 1 != 0),
    };
    self.flags(r == 0, false, false, c);
    r
  }
}

/// Placeholder result (no events) for callers that do not need the reference on the solver side.
pub fn no_events(r0: Regs) -> Out {
  Out { r: r0, cycles: 0, len: 1, nev: 0, ev_kind: [0; MAX_EV], ev_addr: [0; MAX_EV], ev_val: [0; MAX_EV], block_end: false, status: ST_NORMAL, defined: true, nreads: 0 }
}

/// Executes one instruction.  `code` = the instruction bytes (first byte is the
/// opcode), `rd` = the values successive bus reads return.
pub fn step(code: [u8; 3], r0: Regs, rd: [u8; 4]) -> Out {
  let mut m = M { o: Out { r: r0, cycles: 0, len: 1, nev: 0, ev_kind: [0; MAX_EV], ev_addr: [0; MAX_EV], ev_val: [0; MAX_EV], block_end: false, status: ST_NORMAL, defined: true, nreads: 0 }, rd };
  let op = code[0];
  let x = op >> 6; let y = (op >> 3) & 7; let z = op & 7; let p = y >> 1; let q = y & 1;
  let d8 = code[1];
  let d16 = ((code[2] as u16) << 8) | code[1] as u16;
  let pc = r0.pc;
  let mut jump: Option<u16> = None;
  let mut cycles = 1u32;
  let mut len = 1u16;
  match x {
    0 => match z {
      0 => match y {
        0 => {}
        1 => { len = 3; cycles = 5; let sp = m.o.r.sp; m.write(d16, sp as u8); m.write(d16.wrapping_add(1), (sp >> 8) as u8); }
        2 => { len = 2; cycles = 1; m.o.status = ST_STOP; m.o.block_end = true; }
        3 => { len = 2; cycles = 3; m.o.block_end = true; jump = Some(pc.wrapping_add(2).wrapping_add(d8 as i8 as i16 as u16)); }
        _ => {
          len = 2; m.o.block_end = true;
          if m.cond(y - 4) { cycles = 3; jump = Some(pc.wrapping_add(2).wrapping_add(d8 as i8 as i16 as u16)); } else { cycles = 2; }
        }
      },
      1 => {
        if q == 0 { len = 3; cycles = 3; m.set_rp(p, d16); }
        else {
          cycles = 2;
          let hl = m.hl(); let v = m.get_rp(p);
          let r = hl as u32 + v as u32;
          let h = (hl & 0xfff) + (v & 0xfff) > 0xfff;
          m.set_hl(r as u16);
          let zf = m.fz();
          m.flags(zf, false, h, r > 0xffff);
        }
      }
      2 => {
        cycles = 2;
        let addr = match p { 0 => m.bc(), 1 => m.de(), _ => m.hl() };
        if q == 0 { let a = m.o.r.a; m.write(addr, a); } else { let v = m.read(addr); m.o.r.a = v; }
        if p == 2 { let hl = m.hl().wrapping_add(1); m.set_hl(hl); }
        if p == 3 { let hl = m.hl().wrapping_sub(1); m.set_hl(hl); }
      }
      3 => { cycles = 2; let v = m.get_rp(p); m.set_rp(p, if q == 0 { v.wrapping_add(1) } else { v.wrapping_sub(1) }); }
      4 | 5 => {
        cycles = if y == 6 { 3 } else { 1 };
        let v = m.get_r(y);
        let r = if z == 4 { v.wrapping_add(1) } else { v.wrapping_sub(1) };
        m.set_r(y, r);
        let c = m.fc();
        if z == 4 { m.flags(r == 0, false, v & 0xf == 0xf, c); } else { m.flags(r == 0, true, v & 0xf == 0, c); }
      }
      6 => { len = 2; cycles = if y == 6 { 3 } else { 2 }; m.set_r(y, d8); }
      _ => match y {
        0 => { let a = m.o.r.a; let r = (a << 1) | (a >> 7); m.o.r.a = r; m.flags(false, false, false, a & 0x80 != 0); }
        1 => { let a = m.o.r.a; let r = (a >> 1) | (a << 7); m.o.r.a = r; m.flags(false, false, false, a & 1 != 0); }
        2 => { let a = m.o.r.a; let c = if m.fc() { 1 } else { 0 }; m.o.r.a = (a << 1) | c; m.flags(false, false, false, a & 0x80 != 0); }
        3 => { let a = m.o.r.a; let c = if m.fc() { 0x80 } else { 0 }; m.o.r.a = (a >> 1) | c; m.flags(false, false, false, a & 1 != 0); }
        4 => {
          // DAA
          let mut a = m.o.r.a; let n = m.fn_(); let mut c = m.fc(); let h = m.fh();
          if !n {
            if c || a > 0x99 { a = a.wrapping_add(0x60); c = true; }
            if h || (a & 0x0f) > 0x09 { a = a.wrapping_add(0x06); }
          } else {
            if c { a = a.wrapping_sub(0x60); }
            if h { a = a.wrapping_sub(0x06); }
          }
          m.o.r.a = a;
          m.flags(a == 0, n, false, c);
        }
        5 => { m.o.r.a = !m.o.r.a; let (zf, c) = (m.fz(), m.fc()); m.flags(zf, true, true, c); }
        6 => { let zf = m.fz(); m.flags(zf, false, false, true); }
        _ => { let (zf, c) = (m.fz(), m.fc()); m.flags(zf, false, false, !c); }
      },
    },
    1 => {
      if op == 0x76 { m.o.status = ST_HALT; m.o.block_end = true; }
      else { cycles = if y == 6 || z == 6 { 2 } else { 1 }; let v = m.get_r(z); m.set_r(y, v); }
    }
    2 => { cycles = if z == 6 { 2 } else { 1 }; let v = m.get_r(z); m.alu(y, v); }
    _ => match z {
      0 => match y {
        0..=3 => { m.o.block_end = true; if m.cond(y) { cycles = 5; jump = Some(m.pop16()); } else { cycles = 2; } }
        4 => { len = 2; cycles = 3; let a = m.o.r.a; m.write(0xff00 | d8 as u16, a); }
        5 => {
          len = 2; cycles = 4;
          let sp = m.o.r.sp;
          let h = (sp & 0xf) + (d8 as u16 & 0xf) > 0xf; let c = (sp & 0xff) + d8 as u16 > 0xff;
          m.o.r.sp = sp.wrapping_add(d8 as i8 as i16 as u16);
          m.flags(false, false, h, c);
        }
        6 => { len = 2; cycles = 3; let v = m.read(0xff00 | d8 as u16); m.o.r.a = v; }
        _ => {
          len = 2; cycles = 3;
          let sp = m.o.r.sp;
          let h = (sp & 0xf) + (d8 as u16 & 0xf) > 0xf; let c = (sp & 0xff) + d8 as u16 > 0xff;
          m.set_hl(sp.wrapping_add(d8 as i8 as i16 as u16));
          m.flags(false, false, h, c);
        }
      },
      1 => {
        if q == 0 {
          cycles = 3;
          let v = m.pop16();
          match p { 0 => m.set_rp(0, v), 1 => m.set_rp(1, v), 2 => m.set_hl(v), _ => { m.o.r.a = (v >> 8) as u8; m.o.r.f = v as u8 & 0xf0; } }
        } else {
          match p {
            0 => { cycles = 4; m.o.block_end = true; jump = Some(m.pop16()); }
            1 => { cycles = 4; m.o.block_end = true; m.o.status = ST_RETI; jump = Some(m.pop16()); }
            2 => { cycles = 1; m.o.block_end = true; jump = Some(m.hl()); }
            _ => { cycles = 2; m.o.r.sp = m.hl(); }
          }
        }
      }
      2 => match y {
        0..=3 => { len = 3; m.o.block_end = true; if m.cond(y) { cycles = 4; jump = Some(d16); } else { cycles = 3; } }
        4 => { cycles = 2; let (a, c) = (m.o.r.a, m.o.r.c); m.write(0xff00 | c as u16, a); }
        5 => { len = 3; cycles = 4; let a = m.o.r.a; m.write(d16, a); }
        6 => { cycles = 2; let c = m.o.r.c; let v = m.read(0xff00 | c as u16); m.o.r.a = v; }
        _ => { len = 3; cycles = 4; let v = m.read(d16); m.o.r.a = v; }
      },
      3 => match y {
        0 => { len = 3; cycles = 4; m.o.block_end = true; jump = Some(d16); }
        1 => {
          // CB prefix
          len = 2;
          let cb = code[1];
          let (cx, cy, cz) = (cb >> 6, (cb >> 3) & 7, cb & 7);
          match cx {
            0 => { cycles = if cz == 6 { 4 } else { 2 }; let v = m.get_r(cz); let r = m.rot(cy, v); m.set_r(cz, r); }
            1 => { cycles = if cz == 6 { 3 } else { 2 }; let v = m.get_r(cz); let c = m.fc(); m.flags(v & (1 << cy) == 0, false, true, c); }
            2 => { cycles = if cz == 6 { 4 } else { 2 }; let v = m.get_r(cz); m.set_r(cz, v & !(1 << cy)); }
            _ => { cycles = if cz == 6 { 4 } else { 2 }; let v = m.get_r(cz); m.set_r(cz, v | (1 << cy)); }
          }
        }
        6 => { m.o.status = ST_DI; m.o.block_end = true; }
        7 => { m.o.status = ST_EI; m.o.block_end = true; }
        _ => { m.o.defined = false; }
      },
      4 => {
        if y < 4 {
          len = 3; m.o.block_end = true;
          if m.cond(y) { cycles = 6; m.push16(pc.wrapping_add(3)); jump = Some(d16); } else { cycles = 3; }
        } else { m.o.defined = false; }
      }
      5 => {
        if q == 0 {
          cycles = 4;
          let v = match p { 0 => m.bc(), 1 => m.de(), 2 => m.hl(), _ => ((m.o.r.a as u16) << 8) | m.o.r.f as u16 };
          m.push16(v);
        } else if p == 0 { len = 3; cycles = 6; m.o.block_end = true; m.push16(pc.wrapping_add(3)); jump = Some(d16); }
        else { m.o.defined = false; }
      }
      6 => { len = 2; cycles = 2; m.alu(y, d8); }
      _ => { cycles = 4; m.o.block_end = true; m.push16(pc.wrapping_add(1)); jump = Some((y as u16) * 8); }
    },
  }
  m.o.r.pc = match jump { Some(t) => t, None => pc.wrapping_add(len) };
  m.o.cycles = cycles;
  m.o.len = len;
  m.o
}

