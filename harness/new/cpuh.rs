//! Shared machinery of the CPU harnesses (C01, C02, C05, C06).
//!
//! Under Kani the bus helpers and the instruction fetch are stubbed:
//!   * `mem::memory_read_byte`  -> `rec_read`  (k-th read returns RD[k], event logged)
//!   * `mem::memory_write_byte` -> `rec_write` (event logged)
//!   * `mem::get_executable_memory_slice` -> `stub_fetch` (serves the 3 instruction bytes)
//! so that every bus access of the engine under test is observed exactly and
//! the opcode stays a compile-time constant for `decode`.
//! In the native replay build (Kani concrete playback, no stubs) the same entry
//! points run on a REAL `MemoryAreas` built by the real loader: the instruction
//! bytes and the read values of the counterexample are poked into the backing
//! buffers, the real interpreter / real translated machine code executes, and
//! writes are checked by reading memory back.
use crate::cpu::Registers;
use crate::mem::MemoryAreas;
use super::sm83ref::{self, Regs, Out, EV_READ, EV_WRITE};

pub const LOG: usize = 8;
pub static mut RD: [u8; 4] = [0xe1, 0xe2, 0xe3, 0xe4];
pub static mut NRD: usize = 0x5a5a_0505_0505;
pub static mut EVK: [u8; LOG] = [0xe5; LOG];
pub static mut EVA: [u16; LOG] = [0xe6e6; LOG];
pub static mut EVV: [u8; LOG] = [0xe7; LOG];
pub static mut NEV: usize = 0x5a5a_0606_0606;
pub static mut CODE: [u8; 4] = [0xe8, 0xe9, 0xea, 0xeb];
/// replay mode of the recording bus: the k-th event must equal the logged k-th event
pub static mut REPLAY: bool = true;
pub static mut REPLAY_POS: usize = 0x5a5a_0707_0707;
pub static mut REPLAY_OK: bool = false;

pub fn bus_reset(rd: [u8; 4], code: [u8; 3]) {
  unsafe { RD = rd; NRD = 0; NEV = 0; CODE = [code[0], code[1], code[2], 0]; REPLAY = false; REPLAY_POS = 0; REPLAY_OK = true; }
}
/// Serve these instruction bytes from the fetch stub (solver side; natively the harness also writes them to ROM).
pub fn set_code(code: [u8; 3]) { unsafe { CODE = [code[0], code[1], code[2], 0]; } }
/// Second engine: replay against the log recorded by the first.
pub fn bus_start_replay() { unsafe { REPLAY = true; REPLAY_POS = 0; REPLAY_OK = true; NRD = 0; } }
pub fn bus_replay_complete() -> bool { unsafe { REPLAY_OK && REPLAY_POS == NEV } }

pub extern "sysv64" fn rec_read(_m: *const MemoryAreas, addr: u16) -> u8 {
  unsafe {
    if REPLAY {
      let k = REPLAY_POS;
      REPLAY_POS += 1;
      if k < LOG && k < NEV && EVK[k] == EV_READ && EVA[k] == addr { return EVV[k]; }
      REPLAY_OK = false;
      return 0;
    }
    let v = RD[NRD & 3];
    NRD += 1;
    if NEV < LOG { EVK[NEV] = EV_READ; EVA[NEV] = addr; EVV[NEV] = v; }
    NEV += 1;
    v
  }
}
pub extern "sysv64" fn rec_write(_m: *mut MemoryAreas, addr: u16, value: u8) {
  unsafe {
    if REPLAY {
      let k = REPLAY_POS;
      REPLAY_POS += 1;
      if !(k < LOG && k < NEV && EVK[k] == EV_WRITE && EVA[k] == addr && EVV[k] == value) { REPLAY_OK = false; }
      return;
    }
    if NEV < LOG { EVK[NEV] = EV_WRITE; EVA[NEV] = addr; EVV[NEV] = value; }
    NEV += 1;
  }
}
pub fn stub_fetch<'s>(_start: usize, _m: *const MemoryAreas) -> &'s [u8] { unsafe { let c: &'s [u8; 4] = &*core::ptr::addr_of!(CODE); &c[..3] } }

/// The recorded log equals the reference's event list (kind, address, value, order, count).
pub fn log_equals(o: &Out) -> bool {
  unsafe {
    if NEV != o.nev { return false; }
    let mut i = 0;
    let mut ok = true;
    while i < sm83ref::MAX_EV {
      if i < o.nev && (EVK[i] != o.ev_kind[i] || EVA[i] != o.ev_addr[i] || EVV[i] != o.ev_val[i]) { ok = false; }
      i += 1;
    }
    ok
  }
}

pub fn any_regs() -> Regs {
  let r = Regs { a: kani::any(), f: kani::any::<u8>() & 0xf0, b: kani::any(), c: kani::any(), d: kani::any(), e: kani::any(), h: kani::any(), l: kani::any(), sp: kani::any(), pc: kani::any() };
  // the whole instruction lies inside one executable region: ROM, work RAM or high RAM
  // (a fetch never crosses a ROM bank boundary at 0x4000 or a work-RAM bank boundary at 0xd000: the fetch view ends there)
  let rom = r.pc <= 0x7ffc && (r.pc & 0x3fff) <= 0x3ffc;
  let wram = r.pc >= 0xc000 && r.pc <= 0xdffc && (r.pc & 0x0fff) <= 0x0ffc;
  let hram = r.pc >= 0xff80 && r.pc <= 0xfffc;
  kani::assume(rom || wram || hram);
  r
}
pub fn to_registers(r: &Regs, cycles: u32) -> Registers {
  Registers { af: ((r.a as u32) << 8) | r.f as u32, bc: ((r.b as u32) << 8) | r.c as u32, de: ((r.d as u32) << 8) | r.e as u32,
              hl: ((r.h as u32) << 8) | r.l as u32, sp: r.sp as u32, ip: r.pc as u32, cycles }
}

/// Second-attempt constraint for counterexample extraction (`--cfg verif_realizable`): every bus address of the
/// instruction is backed by memory the native replay can poke (ROM, VRAM, cartridge RAM, work RAM, OAM, high RAM)
/// and does not overlap the instruction bytes, so that the counterexample can be rebuilt on a real memory image.
pub fn realizable(o: &Out, pc: u16) -> bool {
  let mut ok = true;
  let mut i = 0;
  while i < sm83ref::MAX_EV {
    if i < o.nev {
      let a = o.ev_addr[i];
      let backed = a <= 0xdfff || (a >= 0xfe00 && a <= 0xfe9f) || (a >= 0xff80 && a <= 0xfffe);
      let on_code = a.wrapping_sub(pc) < 4;
      if !backed || on_code { ok = false; }
    }
    i += 1;
  }
  ok
}

pub struct Run { pub regs: Registers, pub status: u8, pub brk: bool, pub returned: bool, pub bus_ok: bool, pub replayable: bool }

// ---------------------------------------------------------------------------
// interpreter

#[cfg(not(verif_playback))]
pub fn run_interp(code: [u8; 3], r0: &Regs, cycles0: u32, rd: [u8; 4], expect: &Out) -> Run {
  bus_reset(rd, code);
  let mut regs = to_registers(r0, cycles0);
  let mem = 16usize as *mut MemoryAreas; // never dereferenced: every access path is stubbed
  let res = crate::interpreter::run_next_op(&mut regs, mem);
  let bus_ok = log_equals(expect);
  match res {
    Some((status, brk)) => Run { regs, status, brk, returned: true, bus_ok, replayable: true },
    None => Run { regs, status: 0, brk: false, returned: false, bus_ok, replayable: true },
  }
}

#[cfg(verif_playback)]
pub fn run_interp(code: [u8; 3], r0: &Regs, cycles0: u32, _rd: [u8; 4], expect: &Out) -> Run {
  let mut m = native::areas();
  let ok = native::place(&mut m, r0.pc, code, expect);
  let mut regs = to_registers(r0, cycles0);
  if !ok { return Run { regs, status: 0, brk: false, returned: false, bus_ok: true, replayable: false }; }
  let res = crate::interpreter::run_next_op(&mut regs, &mut m as *mut MemoryAreas);
  let bus_ok = native::writes_landed(&m, expect);
  let run = match res {
    Some((status, brk)) => Run { regs, status, brk, returned: true, bus_ok, replayable: true },
    None => Run { regs, status: 0, brk: false, returned: false, bus_ok, replayable: true },
  };
  core::mem::forget(m);
  run
}

/// Interpreter side of the JIT harness.  Under Kani a single instruction; natively the translator needs a
/// terminated block, so a non-terminating instruction is followed by HALT and both engines run the block.
#[cfg(not(verif_playback))]
pub fn run_interp_for_jit(code: [u8; 3], r0: &Regs, cycles0: u32, rd: [u8; 4], expect: &Out, _is_end: bool) -> Run {
  let mut run = run_interp(code, r0, cycles0, rd, expect);
  run.bus_ok = true; // the JIT is compared with the interpreter's own log, not with the reference
  run
}
#[cfg(verif_playback)]
pub fn run_interp_for_jit(code: [u8; 3], r0: &Regs, cycles0: u32, _rd: [u8; 4], expect: &Out, is_end: bool) -> Run {
  let mut m = native::areas();
  let mut regs = to_registers(r0, cycles0);
  if r0.pc > 0x7ff0 || !native::place(&mut m, r0.pc, code, expect) { return Run { regs, status: 0, brk: false, returned: false, bus_ok: true, replayable: false }; }
  if !is_end { native::poke_code(&mut m, r0.pc.wrapping_add(expect.len), 0x76); }
  let status = crate::interpreter::run_code_block(&mut regs, &mut m as *mut MemoryAreas);
  core::mem::forget(m);
  Run { regs, status, brk: true, returned: true, bus_ok: true, replayable: true }
}

#[cfg(verif_playback)]
pub mod native {
  use super::*;
  use crate::cart::Header;
  pub fn areas() -> MemoryAreas {
    // MBC3, 4 ROM banks (64 KiB), 8 KiB cartridge RAM, through the real loader on a real temporary file.
    // Bank 3 is the bank mapped while the instruction executes; bank 2 is mapped while the recompiler TRANSLATES it
    // and holds the same code bytes but complemented data, so a translation that bakes in data read at translation
    // time (instead of reading it when the block runs) is exposed natively.
    let h = Header::verif_with(0x11, 1, 2);
    let mut m = crate::mem::verif_areas(&h);
    map_bank(&mut m, 3);
    m
  }
  pub fn map_bank(m: &mut MemoryAreas, bank: u8) { crate::mem::memory_write_byte(m as *mut MemoryAreas, 0x2000, bank); }
  /// Direct poke into the backing buffer of a bus address; false where nothing writable backs it.
  pub fn poke(m: &mut MemoryAreas, addr: u16, v: u8) -> bool {
    let a = addr as usize;
    match addr {
      0x0000..=0x3fff => { m.rom[a] = v; true }
      0x4000..=0x7fff => { m.rom[3 * 0x4000 + (a & 0x3fff)] = v; m.rom[2 * 0x4000 + (a & 0x3fff)] = !v; true }
      0x8000..=0x9fff => { m.video_ram[a - 0x8000] = v; true }
      0xa000..=0xbfff => { m.cart_ram[a - 0xa000] = v; true }
      0xc000..=0xdfff => { m.work_ram[a - 0xc000] = v; true }
      0xfe00..=0xfe9f => { m.oam_ram[a - 0xfe00] = v; true }
      0xff80..=0xfffe => { m.high_ram[a - 0xff80] = v; true }
      _ => false,
    }
  }
  /// Instruction bytes: identical in the translation-time bank and the execution-time bank.
  pub fn poke_code(m: &mut MemoryAreas, addr: u16, v: u8) {
    let a = addr as usize;
    if addr >= 0x4000 && addr <= 0x7fff { m.rom[3 * 0x4000 + (a & 0x3fff)] = v; m.rom[2 * 0x4000 + (a & 0x3fff)] = v; }
    else { poke(m, addr, v); }
  }
  pub fn place(m: &mut MemoryAreas, pc: u16, code: [u8; 3], expect: &Out) -> bool {
    let exec = matches!(pc, 0x0000..=0x7ffc | 0xc000..=0xdffc | 0xff80..=0xfffc);
    if !exec { eprintln!("VERIF-NOREPLAY pc {:#06x} is not in an executable region of the replay image", pc); return false; }
    let mut ok = true;
    // read values first, then the code (the code wins if they overlap)
    let mut i = 0;
    while i < expect.nev && i < sm83ref::MAX_EV {
      if expect.ev_kind[i] == EV_READ { if !poke(m, expect.ev_addr[i], expect.ev_val[i]) { ok = false; } }
      i += 1;
    }
    let mut k = 0;
    while k < 3 { poke_code(m, pc.wrapping_add(k as u16), code[k]); k += 1; }
    if !ok { eprintln!("VERIF-NOREPLAY a read address of the counterexample is not backed by pokeable memory"); }
    ok
  }
  /// Every write of the reference landed (checked by reading the bus back; RAM-like targets only).
  pub fn writes_landed(m: &MemoryAreas, expect: &Out) -> bool {
    let mut ok = true;
    let mut i = 0;
    while i < expect.nev && i < sm83ref::MAX_EV {
      if expect.ev_kind[i] == EV_WRITE {
        let a = expect.ev_addr[i];
        let ramlike = matches!(a, 0x8000..=0xdfff | 0xfe00..=0xfe9f | 0xff80..=0xfffe);
        // a later write to the same address wins
        let mut later = false;
        let mut j = i + 1;
        while j < expect.nev && j < sm83ref::MAX_EV { if expect.ev_kind[j] == EV_WRITE && expect.ev_addr[j] == a { later = true; } j += 1; }
        if ramlike && !later && crate::mem::memory_read_byte(m as *const MemoryAreas, a) != expect.ev_val[i] { ok = false; }
      }
      i += 1;
    }
    ok
  }
}
