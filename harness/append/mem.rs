/// Builds a `MemoryAreas` through the real loader path `with_rom_file` (so any
/// field the repository adds is initialised by its own code).  Callers must
/// stub `system::get_rom_buffer`, `mem::create_buffer` and `LCD::new`
/// (see `verif::vstub`) and `mem::forget` the result.
#[cfg(kani)]
pub fn verif_areas(header: &Header) -> MemoryAreas {
  let mut f = crate::verif::vstub::dummy_file();
  let m = MemoryAreas::with_rom_file(&mut f, header);
  core::mem::forget(f);
  m
}

#[cfg(kani)]
impl MemoryAreas {
  pub fn verif_dma_state(&self) -> Option<(usize, u8)> { self.oam_dma.map(|d| (d.source, d.current_offset)) }
  pub fn verif_set_dma(&mut self, s: Option<(usize, u8)>) {
    self.oam_dma = s.map(|(source, current_offset)| DMAState { source, current_offset });
  }
}

#[cfg(all(kani, verif_c11))]
mod verif_c11 {
  use super::*;
  use crate::vassert;
  use crate::verif::vstub;

  fn supported_type(sel: u8) -> u8 {
    match sel % 7 { 0 => 0x00, 1 => 0x01, 2 => 0x02, 3 => 0x03, 4 => 0x11, 5 => 0x12, _ => 0x13 }
  }

  /// kind: 0 ROM-only, 1 MBC1 family, 2 MBC3 family.  `op`: 0 read, 1 write, 2 word read, 3 word write.
  fn bus_total(kind: u8, op: u8) {
    let cart_type = match kind { 0 => 0x00u8, 1 => { let s: u8 = kani::any(); kani::assume(s >= 1 && s <= 3); s }, _ => { let s: u8 = kani::any(); kani::assume(s >= 0x11 && s <= 0x13); s } };
    let rom_code: u8 = kani::any();
    let ram_code: u8 = kani::any();
    let h = Header::verif_with(cart_type, rom_code, ram_code);
    let mut m = verif_areas(&h);
    let p = &mut m as *mut MemoryAreas;
    // arbitrary banking-register state: one guest write into each of the four
    // controller register windows, arbitrary values (the window base address is
    // concrete to keep the write ladder out of these four calls; C12 covers
    // symbolic addresses inside the windows)
    memory_write_byte(p, 0x0000, kani::any());
    memory_write_byte(p, 0x2000, kani::any());
    memory_write_byte(p, 0x4000, kani::any());
    memory_write_byte(p, 0x6000, kani::any());
    let addr: u16 = kani::any();
    match op {
      0 => { let _ = memory_read_byte(p, addr); }
      1 => { memory_write_byte(p, addr, kani::any()); }
      2 => { let _ = memory_read_word(p, addr); }
      _ => { memory_write_word(p, addr, kani::any()); }
    }
    kani::cover!(addr == 0xffff, "reached");
    core::mem::forget(m);
  }

  macro_rules! total {
    ($name:ident, $kind:expr, $op:expr) => {
      #[kani::proof]
      #[kani::unwind(6)]
      #[kani::stub(crate::system::get_rom_buffer, vstub::stub_get_rom_buffer)]
      #[kani::stub(crate::mem::create_buffer, vstub::stub_create_buffer)]
      #[kani::stub(crate::devices::video::lcd::LCD::new, vstub::stub_lcd_new)]
      #[kani::stub(<std::io::Stdout as std::io::Write>::write, vstub::stub_stdout_write)]
      #[kani::stub(<std::io::Stdout as std::io::Write>::flush, vstub::stub_stdout_flush)]
      fn $name() { bus_total($kind, $op); }
    };
  }
  total!(c11_romonly_read, 0, 0);
  total!(c11_romonly_write, 0, 1);
  total!(c11_romonly_readw, 0, 2);
  total!(c11_romonly_writew, 0, 3);
  total!(c11_mbc1_read, 1, 0);
  total!(c11_mbc1_write, 1, 1);
  total!(c11_mbc1_readw, 1, 2);
  total!(c11_mbc1_writew, 1, 3);
  total!(c11_mbc3_read, 2, 0);
  total!(c11_mbc3_write, 2, 1);
  total!(c11_mbc3_readw, 2, 2);
  total!(c11_mbc3_writew, 2, 3);

  #[kani::proof]
  #[kani::unwind(6)]
  #[kani::stub(crate::system::get_rom_buffer, vstub::stub_get_rom_buffer)]
  #[kani::stub(crate::mem::create_buffer, vstub::stub_create_buffer)]
  #[kani::stub(crate::devices::video::lcd::LCD::new, vstub::stub_lcd_new)]
  fn c11_witness_must_fail() {
    let h = Header::verif_with(0x01, kani::any(), kani::any());
    let mut m = verif_areas(&h);
    let p = &mut m as *mut MemoryAreas;
    memory_write_byte(p, 0x2000, kani::any());
    let _ = memory_read_byte(p, 0xc000);
    assert!(false, "C11.witness");
  }
  // VERIF-END verif_c11
}

#[cfg(all(kani, verif_c12))]
mod verif_c12 {
  use super::*;
  use crate::vassert;
  use crate::verif::vstub;

  /// Reference controller, written from the MBC1/MBC3 register protocol.
  #[derive(Clone, Copy)]
  struct RefMbc { kind: u8, bank1: u8, bank2: u8, mode: bool, ram_sel: u8, ram_known: bool }
  impl RefMbc {
    fn new(kind: u8) -> Self { RefMbc { kind, bank1: 1, bank2: 0, mode: false, ram_sel: 0, ram_known: true } }
    fn write(&mut self, addr: u16, v: u8) {
      match self.kind {
        1 => {
          if addr < 0x2000 { /* RAM enable: not compared */ }
          else if addr < 0x4000 { self.bank1 = v & 0x1f; }
          else if addr < 0x6000 { self.bank2 = v & 3; }
          else { self.mode = v & 1 == 1; }
        }
        3 => {
          if addr < 0x2000 { }
          else if addr < 0x4000 { self.bank1 = v & 0x7f; }
          else if addr < 0x6000 {
            if v < 4 { self.ram_sel = v; self.ram_known = true; }
            else { self.ram_known = false; } // RTC register select / undefined values: not part of the statement
          }
          else { }
        }
        _ => {}
      }
    }
    /// (bank, alternative bank also accepted) before reduction
    fn rom_bank(&self) -> (usize, usize) {
      match self.kind {
        1 => {
          let low = if self.bank1 == 0 { 1 } else { self.bank1 as usize };
          let full = ((self.bank2 as usize) << 5) | low;
          // Mode 1 with the upper bits set: documentation differs on whether they
          // still reach 0x4000-0x7fff; both readings are accepted there.
          if self.mode { (full, low) } else { (full, full) }
        }
        3 => { let b = if self.bank1 == 0 { 1 } else { self.bank1 as usize }; (b, b) }
        _ => (1, 1),
      }
    }
    fn ram_bank(&self) -> Option<usize> {
      match self.kind {
        1 => Some(if self.mode { self.bank2 as usize } else { 0 }),
        3 => if self.ram_known { Some(self.ram_sel as usize) } else { None },
        _ => Some(0),
      }
    }
  }

  fn mapping(kind: u8, nwrites: usize) {
    let cart_type = match kind { 0 => 0x00u8, 1 => { let s: u8 = kani::any(); kani::assume(s >= 1 && s <= 3); s }, _ => { let s: u8 = kani::any(); kani::assume(s >= 0x11 && s <= 0x13); s } };
    let rom_code: u8 = kani::any();
    let ram_code: u8 = kani::any();
    let h = Header::verif_with(cart_type, rom_code, ram_code);
    let mut m = verif_areas(&h);
    let p = &mut m as *mut MemoryAreas;
    let rom_banks = crate::cart::verif_ref_rom_banks(rom_code);
    let ram_bytes = crate::cart::verif_ref_ram_bytes(ram_code);
    vassert!(m.rom.len() == rom_banks * 0x4000, "C12.setup.rom_size");
    vassert!(m.cart_ram.len() == ram_bytes, "C12.setup.ram_size");
    let mut r = RefMbc::new(if kind == 2 { 3 } else { kind });
    let mut i = 0;
    while i < nwrites {
      let a: u16 = kani::any();
      let v: u8 = kani::any();
      kani::assume(a < 0x8000);
      memory_write_byte(p, a, v);
      r.write(a, v);
      i += 1;
    }
    // probe: poke arbitrary bytes at the cells the reference selects (background is zero)
    let off: usize = kani::any();
    kani::assume(off < 0x4000);
    let (b1, b2) = r.rom_bank();
    let i1 = (b1 % rom_banks) * 0x4000 + off;
    let i2 = (b2 % rom_banks) * 0x4000 + off;
    m.rom[off] = kani::any();
    m.rom[i2] = kani::any();
    m.rom[i1] = kani::any();
    let (e1, e2, e0) = (m.rom[i1], m.rom[i2], m.rom[off]);
    let got_hi = memory_read_byte(p, 0x4000 + off as u16);
    vassert!(got_hi == e1 || got_hi == e2, "C12.rom.switchable_bank");
    let fetch_hi = get_executable_memory_slice(0x4000 + off, p)[0];
    vassert!(fetch_hi == got_hi, "C12.rom.fetch_view_switchable");
    let got_lo = memory_read_byte(p, off as u16);
    vassert!(got_lo == e0, "C12.rom.bank0_fixed");
    let fetch_lo = get_executable_memory_slice(off, p)[0];
    vassert!(fetch_lo == got_lo, "C12.rom.fetch_view_bank0");
    // cartridge RAM
    let roff = off & 0x1fff;
    if let Some(rb) = r.ram_bank() {
      let nb = if ram_bytes / 0x2000 == 0 { 1 } else { ram_bytes / 0x2000 };
      let idx = (rb % nb) * 0x2000 + roff;
      if idx < ram_bytes {
        let want: u8 = kani::any();
        m.cart_ram[idx] = want;
        let got = memory_read_byte(p, 0xa000 + roff as u16);
        vassert!(got == want, "C12.ram.bank");
        // a write lands in the same cell
        let nv: u8 = kani::any();
        memory_write_byte(p, 0xa000 + roff as u16, nv);
        vassert!(m.cart_ram[idx] == nv, "C12.ram.write_bank");
      }
    }
    kani::cover!(b1 % rom_banks > 1, "reached");
    core::mem::forget(m);
  }

  macro_rules! c12 {
    ($name:ident, $kind:expr, $n:expr, $unwind:expr) => {
      #[kani::proof]
      #[kani::unwind($unwind)]
      #[kani::stub(crate::system::get_rom_buffer, vstub::stub_get_rom_buffer)]
      #[kani::stub(crate::mem::create_buffer, vstub::stub_create_buffer)]
      #[kani::stub(crate::devices::video::lcd::LCD::new, vstub::stub_lcd_new)]
      #[kani::stub(<std::io::Stdout as std::io::Write>::write, vstub::stub_stdout_write)]
      #[kani::stub(<std::io::Stdout as std::io::Write>::flush, vstub::stub_stdout_flush)]
      fn $name() { mapping($kind, $n); }
    };
  }
  c12!(c12_mbc1_w3, 1, 3, 5);
  c12!(c12_mbc3_w3, 2, 3, 5);
  #[cfg(verif_thorough)]
  c12!(c12_mbc1_w5, 1, 5, 7);
  #[cfg(verif_thorough)]
  c12!(c12_mbc3_w5, 2, 5, 7);

  /// ROM-only cartridges ignore every write below 0x8000.
  #[kani::proof]
  #[kani::unwind(5)]
  #[kani::stub(crate::system::get_rom_buffer, vstub::stub_get_rom_buffer)]
  #[kani::stub(crate::mem::create_buffer, vstub::stub_create_buffer)]
  #[kani::stub(crate::devices::video::lcd::LCD::new, vstub::stub_lcd_new)]
  #[kani::stub(<std::io::Stdout as std::io::Write>::write, vstub::stub_stdout_write)]
  #[kani::stub(<std::io::Stdout as std::io::Write>::flush, vstub::stub_stdout_flush)]
  fn c12_romonly_w3() {
    let rom_code: u8 = kani::any();
    let h = Header::verif_with(0, rom_code, kani::any());
    let mut m = verif_areas(&h);
    let p = &mut m as *mut MemoryAreas;
    let rom_banks = crate::cart::verif_ref_rom_banks(rom_code);
    let mut i = 0;
    while i < 3 {
      let a: u16 = kani::any();
      kani::assume(a < 0x8000);
      memory_write_byte(p, a, kani::any());
      i += 1;
    }
    let off: usize = kani::any();
    kani::assume(off < 0x4000);
    m.rom[off] = kani::any();
    m.rom[(1 % rom_banks) * 0x4000 + off] = kani::any();
    vassert!(memory_read_byte(p, 0x4000 + off as u16) == m.rom[(1 % rom_banks) * 0x4000 + off], "C12.romonly.bank1");
    vassert!(memory_read_byte(p, off as u16) == m.rom[off], "C12.romonly.bank0");
    vassert!(get_executable_memory_slice(0x4000 + off, p)[0] == m.rom[(1 % rom_banks) * 0x4000 + off], "C12.romonly.fetch");
    kani::cover!(true, "reached");
    core::mem::forget(m);
  }

  #[kani::proof]
  #[kani::unwind(5)]
  #[kani::stub(crate::system::get_rom_buffer, vstub::stub_get_rom_buffer)]
  #[kani::stub(crate::mem::create_buffer, vstub::stub_create_buffer)]
  #[kani::stub(crate::devices::video::lcd::LCD::new, vstub::stub_lcd_new)]
  fn c12_witness_must_fail() {
    let h = Header::verif_with(0x01, kani::any(), kani::any());
    let mut m = verif_areas(&h);
    let p = &mut m as *mut MemoryAreas;
    memory_write_byte(p, 0x2000, kani::any());
    let _ = memory_read_byte(p, 0x4000);
    assert!(false, "C12.witness");
  }
  // VERIF-END verif_c12
}

#[cfg(all(kani, verif_c10))]
mod verif_c10 {
  use super::*;
  use crate::vassert;
  use crate::verif::vstub;

  #[derive(Clone, Copy, PartialEq, Eq)]
  enum Reg { Rom, Vram, CartRam, Wram, Echo, Oam, Unused, Io, Hram, Ie }
  /// Documented DMG memory map.
  fn region(a: u16) -> Reg {
    match a {
      0x0000..=0x7fff => Reg::Rom,
      0x8000..=0x9fff => Reg::Vram,
      0xa000..=0xbfff => Reg::CartRam,
      0xc000..=0xdfff => Reg::Wram,
      0xe000..=0xfdff => Reg::Echo,
      0xfe00..=0xfe9f => Reg::Oam,
      0xfea0..=0xfeff => Reg::Unused,
      0xff00..=0xff7f => Reg::Io,
      0xff80..=0xfffe => Reg::Hram,
      _ => Reg::Ie,
    }
  }
  /// I/O registers this emulator implements (everything else in 0xff00-0xff7f is unassigned).
  fn io_assigned(a: u16) -> bool {
    matches!(a & 0xff, 0x00 | 0x01 | 0x02 | 0x04 | 0x05 | 0x06 | 0x07 | 0x0f | 0x40..=0x4b) // 0x46 = DMA register
  }

  fn build(kind: u8) -> (MemoryAreas, usize) {
    let cart_type = match kind { 0 => 0x00u8, 1 => { let s: u8 = kani::any(); kani::assume(s >= 1 && s <= 3); s }, _ => { let s: u8 = kani::any(); kani::assume(s >= 0x11 && s <= 0x13); s } };
    let ram_code: u8 = kani::any();
    let h = Header::verif_with(cart_type, kani::any(), ram_code);
    let mut m = verif_areas(&h);
    let p = &mut m as *mut MemoryAreas;
    // arbitrary banking registers
    memory_write_byte(p, 0x0000, kani::any());
    memory_write_byte(p, 0x2000, kani::any());
    memory_write_byte(p, 0x4000, kani::any());
    memory_write_byte(p, 0x6000, kani::any());
    (m, crate::cart::verif_ref_ram_bytes(ram_code))
  }

  /// Write to a RAM-like target: stored independently.
  fn frame_ram(kind: u8) {
    let (mut m, ram_bytes) = build(kind);
    let p = &mut m as *mut MemoryAreas;
    let a1: u16 = kani::any();
    let a2: u16 = kani::any();
    let v: u8 = kani::any();
    let r1 = region(a1);
    kani::assume(matches!(r1, Reg::Vram | Reg::CartRam | Reg::Wram | Reg::Oam | Reg::Hram | Reg::Ie));
    // cartridge RAM only where RAM is present for every bank (beyond it the bus is open: see C11/C12)
    if r1 == Reg::CartRam { kani::assume(ram_bytes >= 0x2000); }
    let before = memory_read_byte(p, a2);
    memory_write_byte(p, a1, v);
    let after = memory_read_byte(p, a2);
    if a2 == a1 {
      if r1 == Reg::Ie { vassert!(after & 0x1f == v & 0x1f, "C10.ram.readback_ie"); }
      else { vassert!(after == v, "C10.ram.readback"); }
    } else {
      vassert!(after == before, "C10.ram.frame");
    }
    kani::cover!(a2 != a1 && region(a2) == Reg::Io, "reached");
    core::mem::forget(m);
  }

  /// Unmapped targets ignore writes; unmapped addresses read as a constant.
  fn frame_unmapped(kind: u8) {
    let (mut m, _ram_bytes) = build(kind);
    let p = &mut m as *mut MemoryAreas;
    let a1: u16 = kani::any();
    let a2: u16 = kani::any();
    let v: u8 = kani::any();
    let unmapped1 = matches!(region(a1), Reg::Echo | Reg::Unused) || (region(a1) == Reg::Io && !io_assigned(a1));
    let unmapped2 = matches!(region(a2), Reg::Echo | Reg::Unused) || (region(a2) == Reg::Io && !io_assigned(a2));
    kani::assume(unmapped1 || unmapped2);
    let before = memory_read_byte(p, a2);
    memory_write_byte(p, a1, v);
    let after = memory_read_byte(p, a2);
    if unmapped1 { vassert!(after == before, "C10.unmapped.write_ignored"); }
    if unmapped2 {
      vassert!(after == before, "C10.unmapped.read_constant");
      let c = if region(a2) == Reg::Io { 0xff } else { 0x00 };
      vassert!(after == c || after == 0xff || after == 0, "C10.unmapped.read_value");
    }
    kani::cover!(unmapped1 && !unmapped2, "reached");
    core::mem::forget(m);
  }

  /// ROM never changes through the bus; a write below 0x8000 changes nothing
  /// outside the two banked windows.
  fn frame_rom(kind: u8) {
    let (mut m, _ram_bytes) = build(kind);
    let p = &mut m as *mut MemoryAreas;
    let a1: u16 = kani::any();
    let a2: u16 = kani::any();
    let v: u8 = kani::any();
    kani::assume(a1 < 0x8000);
    let idx: usize = kani::any();
    kani::assume(idx < m.rom.len());
    let content: u8 = kani::any();
    m.rom[idx] = content;
    let before = memory_read_byte(p, a2);
    memory_write_byte(p, a1, v);
    let after = memory_read_byte(p, a2);
    vassert!(m.rom[idx] == content, "C10.rom.contents_unchanged");
    let banked = (a2 >= 0x4000 && a2 < 0x8000) || region(a2) == Reg::CartRam;
    if !banked { vassert!(after == before, "C10.rom.write_changes_nothing_else"); }
    kani::cover!(a2 < 0x4000, "reached");
    core::mem::forget(m);
  }

  /// I/O registers return their defined writable bits; an I/O write changes no memory cell.
  fn io_readback() {
    let (mut m, _ram_bytes) = build(0);
    let p = &mut m as *mut MemoryAreas;
    let r: u8 = kani::any();
    let v: u8 = kani::any();
    kani::assume(r < 0x80);
    let a1 = 0xff00u16 | r as u16;
    let a2: u16 = kani::any();
    kani::assume(region(a2) != Reg::Io);
    let before2 = memory_read_byte(p, a2);
    let before1 = memory_read_byte(p, a1);
    memory_write_byte(p, a1, v);
    let got = memory_read_byte(p, a1);
    let mask: u8 = match r {
      0x00 => 0x30,
      0x05 | 0x06 => 0xff,
      0x07 => 0x07,
      0x0f => 0x1f,
      0x40 | 0x42 | 0x43 | 0x45 | 0x47 | 0x48 | 0x49 | 0x4a | 0x4b => 0xff,
      0x41 => 0x78,
      _ => 0x00,
    };
    vassert!(got & mask == v & mask, "C10.io.readback_mask");
    if r == 0x04 { vassert!(got == 0, "C10.io.div_reads_zero_after_write"); }
    if r == 0x44 { vassert!(got == before1, "C10.io.ly_read_only"); }
    if r == 0x0f { vassert!(got & 0xe0 == 0xe0, "C10.io.if_high_bits"); }
    let after2 = memory_read_byte(p, a2);
    // 0xff46 arms a transfer but copies nothing until time passes (C16)
    vassert!(after2 == before2, "C10.io.write_changes_no_memory");
    kani::cover!(mask == 0x78, "reached");
    core::mem::forget(m);
  }

  /// Instruction fetch sees the bytes data reads see (work RAM, high RAM; ROM is in C12).
  fn fetch_view() {
    let (mut m, _ram_bytes) = build(0);
    let p = &mut m as *mut MemoryAreas;
    let a: u16 = kani::any();
    kani::assume(matches!(region(a), Reg::Wram | Reg::Hram));
    // arbitrary contents at the three cells an instruction can span
    memory_write_byte(p, a, kani::any());
    let s = get_executable_memory_slice(a as usize, p);
    vassert!(s.len() >= 1, "C10.fetch.nonempty");
    vassert!(s[0] == memory_read_byte(p, a), "C10.fetch.first_byte");
    let a1 = a.wrapping_add(1);
    if s.len() >= 2 && region(a1) == region(a) && (a1 & 0xf000) == (a & 0xf000) {
      memory_write_byte(p, a1, kani::any());
      let s = get_executable_memory_slice(a as usize, p);
      vassert!(s[1] == memory_read_byte(p, a1), "C10.fetch.second_byte");
    }
    // the slice ends exactly at the end of its region / bank
    let end = match a { 0xc000..=0xcfff => 0xd000usize, 0xd000..=0xdfff => 0xe000, _ => 0xffff };
    vassert!(s.len() == end - a as usize, "C10.fetch.slice_extent");
    kani::cover!(region(a) == Reg::Hram, "reached");
    core::mem::forget(m);
  }

  macro_rules! c10 {
    ($name:ident, $body:expr) => {
      #[kani::proof]
      #[kani::unwind(6)]
      #[kani::stub(crate::system::get_rom_buffer, vstub::stub_get_rom_buffer)]
      #[kani::stub(crate::mem::create_buffer, vstub::stub_create_buffer)]
      #[kani::stub(crate::devices::video::lcd::LCD::new, vstub::stub_lcd_new)]
      #[kani::stub(<std::io::Stdout as std::io::Write>::write, vstub::stub_stdout_write)]
      #[kani::stub(<std::io::Stdout as std::io::Write>::flush, vstub::stub_stdout_flush)]
      fn $name() { $body; }
    };
  }
  c10!(c10_frame_ram_romonly, frame_ram(0));
  c10!(c10_frame_ram_mbc1, frame_ram(1));
  c10!(c10_frame_ram_mbc3, frame_ram(2));
  c10!(c10_unmapped_mbc1, frame_unmapped(1));
  c10!(c10_rom_romonly, frame_rom(0));
  c10!(c10_rom_mbc1, frame_rom(1));
  c10!(c10_rom_mbc3, frame_rom(2));
  c10!(c10_io_readback, io_readback());
  c10!(c10_fetch_view, fetch_view());
  c10!(c10_witness_must_fail, { let (mut m, _r) = build(1); let p = &mut m as *mut MemoryAreas; memory_write_byte(p, kani::any(), kani::any()); let _ = memory_read_byte(p, kani::any()); assert!(false, "C10.witness"); });
  // VERIF-END verif_c10
}

#[cfg(all(kani, verif_c16))]
mod verif_c16 {
  use super::*;
  use crate::vassert;
  use crate::verif::vstub;

  // ---- recording bus (solver side only) ----
  const LOG: usize = 40;
  static mut EV_KIND: [u8; LOG] = [0xc1; LOG];   // 1 = read, 2 = write
  static mut EV_ADDR: [u16; LOG] = [0xc2c2; LOG];
  static mut EV_VAL: [u8; LOG] = [0xc3; LOG];
  static mut NEV: usize = 0x5a5a_0404_0404;
  extern "sysv64" fn rec_read(_m: *const MemoryAreas, addr: u16) -> u8 {
    let v: u8 = kani::any();
    unsafe { if NEV < LOG { EV_KIND[NEV] = 1; EV_ADDR[NEV] = addr; EV_VAL[NEV] = v; } NEV += 1; }
    v
  }
  extern "sysv64" fn rec_write(_m: *mut MemoryAreas, addr: u16, value: u8) {
    unsafe { if NEV < LOG { EV_KIND[NEV] = 2; EV_ADDR[NEV] = addr; EV_VAL[NEV] = value; } NEV += 1; }
  }
  fn io_noop(_io: &mut crate::devices::io::IO, _c: ClockCycles, _v: &Box<[u8]>, _o: &Box<[u8]>) {}

  fn any_dma() -> Option<(usize, u8)> {
    if kani::any() { None } else {
      let page: u8 = kani::any();
      let off: u8 = kani::any();
      kani::assume(off < 0xa0);
      Some(((page as usize) << 8, off))
    }
  }

  /// Writing XX to 0xff46 (re)starts a transfer from XX00 at offset 0, whatever was in progress.
  #[kani::proof]
  #[kani::unwind(6)]
  #[kani::stub(crate::system::get_rom_buffer, vstub::stub_get_rom_buffer)]
  #[kani::stub(crate::mem::create_buffer, vstub::stub_create_buffer)]
  #[kani::stub(crate::devices::video::lcd::LCD::new, vstub::stub_lcd_new)]
  fn c16_arming() {
    let h = Header::verif_with(0, 0, 0);
    let mut m = verif_areas(&h);
    m.verif_set_dma(any_dma());
    let p = &mut m as *mut MemoryAreas;
    let xx: u8 = kani::any();
    let probe: u8 = kani::any();
    kani::assume(probe < 0xa0);
    let oam_before = m.oam_ram[probe as usize];
    memory_write_byte(p, 0xff46, xx);
    vassert!(m.verif_dma_state() == Some(((xx as usize) << 8, 0)), "C16.arm.restarts_at_offset_0");
    vassert!(m.oam_ram[probe as usize] == oam_before, "C16.arm.copies_nothing_yet");
    kani::cover!(true, "reached");
    core::mem::forget(m);
  }

  /// The transaction contract: exactly min(remaining, cycles/4) read/write pairs, ascending, nothing else.
  fn transactions(max_bytes: usize, tail_only: bool) {
    let h = Header::verif_with(0, 0, 0);
    let mut m = verif_areas(&h);
    let page: u8 = kani::any();
    let o: u8 = kani::any();
    kani::assume(o < 0xa0);
    let c: usize = kani::any();
    kani::assume(c % 4 == 0);
    if tail_only {
      // any batch size, transfer within `max_bytes` of its end: the batch arithmetic must not lose or wrap cycles
      kani::assume(c < (1 << 24) && (0xa0 - o as usize) <= max_bytes);
    } else {
      kani::assume(c / 4 <= max_bytes);
    }
    m.verif_set_dma(Some(((page as usize) << 8, o)));
    unsafe { NEV = 0; }
    m.run_clock_cycles(ClockCycles(c));
    let remaining = 0xa0 - o as usize;
    let n = if c / 4 < remaining { c / 4 } else { remaining };
    let nev = unsafe { NEV };
    vassert!(nev == 2 * n, "C16.txn.count");
    let mut i = 0;
    while i < n && i < max_bytes {
      let (k1, a1, v1, k2, a2, v2) = unsafe { (EV_KIND[2 * i], EV_ADDR[2 * i], EV_VAL[2 * i], EV_KIND[2 * i + 1], EV_ADDR[2 * i + 1], EV_VAL[2 * i + 1]) };
      vassert!(k1 == 1 && a1 == (((page as u16) << 8) | (o as u16 + i as u16)), "C16.txn.source_address");
      vassert!(k2 == 2 && a2 == 0xfe00 + o as u16 + i as u16, "C16.txn.dest_address");
      vassert!(v2 == v1, "C16.txn.value");
      i += 1;
    }
    let done = o as usize + n;
    if done < 0xa0 {
      vassert!(m.verif_dma_state() == Some(((page as usize) << 8, done as u8)), "C16.txn.progress");
    } else {
      vassert!(m.verif_dma_state() == None, "C16.txn.completes_at_160");
    }
    kani::cover!(n == max_bytes, "reached");
    core::mem::forget(m);
  }

  macro_rules! txn {
    ($name:ident, $max:expr, $tail:expr, $unwind:expr) => {
      #[kani::proof]
      #[kani::unwind($unwind)]
      #[kani::stub(crate::system::get_rom_buffer, vstub::stub_get_rom_buffer)]
      #[kani::stub(crate::mem::create_buffer, vstub::stub_create_buffer)]
      #[kani::stub(crate::devices::video::lcd::LCD::new, vstub::stub_lcd_new)]
      #[kani::stub(crate::mem::memory_read_byte, rec_read)]
      #[kani::stub(crate::mem::memory_write_byte, rec_write)]
      #[kani::stub(crate::devices::io::IO::run_clock_cycles, io_noop)]
      fn $name() { transactions($max, $tail); }
    };
  }
  txn!(c16_txn_batch8, 8, false, 10);
  txn!(c16_txn_tail8_any_batch, 8, true, 10);
  #[cfg(verif_thorough)]
  txn!(c16_txn_batch32, 18, false, 20);

  /// No transfer in progress: time passes, no bus traffic.
  #[kani::proof]
  #[kani::unwind(4)]
  #[kani::stub(crate::system::get_rom_buffer, vstub::stub_get_rom_buffer)]
  #[kani::stub(crate::mem::create_buffer, vstub::stub_create_buffer)]
  #[kani::stub(crate::devices::video::lcd::LCD::new, vstub::stub_lcd_new)]
  #[kani::stub(crate::mem::memory_read_byte, rec_read)]
  #[kani::stub(crate::mem::memory_write_byte, rec_write)]
  #[kani::stub(crate::devices::io::IO::run_clock_cycles, io_noop)]
  fn c16_idle_no_traffic() {
    let h = Header::verif_with(0, 0, 0);
    let mut m = verif_areas(&h);
    let c: usize = kani::any();
    kani::assume(c % 4 == 0 && c < (1 << 24));
    unsafe { NEV = 0; }
    m.run_clock_cycles(ClockCycles(c));
    vassert!(unsafe { NEV } == 0 && m.verif_dma_state() == None, "C16.idle.no_traffic");
    kani::cover!(true, "reached");
    core::mem::forget(m);
  }

  /// Two batches equal one (contract is additive; queried directly on the state).
  #[kani::proof]
  #[kani::unwind(10)]
  #[kani::stub(crate::system::get_rom_buffer, vstub::stub_get_rom_buffer)]
  #[kani::stub(crate::mem::create_buffer, vstub::stub_create_buffer)]
  #[kani::stub(crate::devices::video::lcd::LCD::new, vstub::stub_lcd_new)]
  #[kani::stub(crate::mem::memory_read_byte, rec_read)]
  #[kani::stub(crate::mem::memory_write_byte, rec_write)]
  #[kani::stub(crate::devices::io::IO::run_clock_cycles, io_noop)]
  fn c16_batch_split() {
    let h = Header::verif_with(0, 0, 0);
    let mut m = verif_areas(&h);
    let page: u8 = kani::any();
    let o: u8 = kani::any();
    kani::assume(o < 0xa0);
    let a: usize = kani::any();
    let b: usize = kani::any();
    kani::assume(a <= 8 && b <= 8 && a + b <= 8);
    m.verif_set_dma(Some(((page as usize) << 8, o)));
    unsafe { NEV = 0; }
    m.run_clock_cycles(ClockCycles(4 * a));
    m.run_clock_cycles(ClockCycles(4 * b));
    let remaining = 0xa0 - o as usize;
    let n = if a + b < remaining { a + b } else { remaining };
    vassert!(unsafe { NEV } == 2 * n, "C16.split.count");
    let mut i = 0;
    while i < n && i < 8 {
      let (a1, a2) = unsafe { (EV_ADDR[2 * i], EV_ADDR[2 * i + 1]) };
      vassert!(a1 == (((page as u16) << 8) | (o as u16 + i as u16)) && a2 == 0xfe00 + o as u16 + i as u16, "C16.split.addresses");
      i += 1;
    }
    let done = o as usize + n;
    vassert!(m.verif_dma_state() == if done < 0xa0 { Some(((page as usize) << 8, done as u8)) } else { None }, "C16.split.progress");
    kani::cover!(a > 0 && b > 0, "reached");
    core::mem::forget(m);
  }

  /// Cross-check through the REAL bus ladder (no bus stubs; natively replayable):
  /// a transfer from work RAM / ROM / echo area lands in OAM and nowhere else.
  fn ladder(page: u8, max_bytes: usize, o_lo: u8, o_hi: u8) {
    let h = Header::verif_with(0, 0, 0);
    let mut m = verif_areas(&h);
    let p = &mut m as *mut MemoryAreas;
    let o: u8 = kani::any();
    kani::assume(o < 0xa0 && o >= o_lo && o <= o_hi);
    let nb: usize = kani::any();
    kani::assume(nb <= max_bytes);
    // arbitrary source bytes (where the source is writable memory) and an arbitrary OAM/other probe
    let src = ((page as u16) << 8) | o as u16;
    memory_write_byte(p, src, kani::any());
    memory_write_byte(p, src.wrapping_add(1), kani::any());
    let probe: u16 = kani::any();
    let exp0 = memory_read_byte(p, src);
    let exp1 = memory_read_byte(p, src.wrapping_add(1));
    let before = memory_read_byte(p, probe);
    memory_write_byte(p, 0xff46, page);
    m.run_clock_cycles(ClockCycles(4 * o as usize)); // reach offset o: contents of the first o bytes are not compared
    let before_oam_probe = memory_read_byte(p, probe);
    m.run_clock_cycles(ClockCycles(4 * nb));
    let remaining = 0xa0 - o as usize;
    let n = if nb < remaining { nb } else { remaining };
    if n >= 1 { vassert!(m.oam_ram[o as usize] == exp0, "C16.ladder.byte0"); }
    if n >= 2 { vassert!(m.oam_ram[o as usize + 1] == exp1, "C16.ladder.byte1"); }
    let after = memory_read_byte(p, probe);
    let in_oam = probe >= 0xfe00 && probe < 0xfea0;
    if !in_oam && probe != 0xff46 && !(probe >= 0xff00 && probe < 0xff80) {
      vassert!(after == before, "C16.ladder.touches_no_other_memory");
    }
    if in_oam && ((probe - 0xfe00) as usize >= o as usize + n) {
      vassert!(after == before_oam_probe, "C16.ladder.oam_beyond_progress_untouched");
    }
    kani::cover!(n == 2, "reached");
    core::mem::forget(m);
  }
  macro_rules! lad {
    ($name:ident, $page:expr, $unwind:expr, $lo:expr, $hi:expr) => {
      #[kani::proof]
      #[kani::unwind($unwind)]
      #[kani::stub(crate::system::get_rom_buffer, vstub::stub_get_rom_buffer)]
      #[kani::stub(crate::mem::create_buffer, vstub::stub_create_buffer)]
      #[kani::stub(crate::devices::video::lcd::LCD::new, vstub::stub_lcd_new)]
      #[kani::stub(crate::devices::io::IO::run_clock_cycles, io_noop)]
      fn $name() { ladder($page, 2, $lo, $hi); }
    };
  }
  // offsets 0..=3 only: a fully symbolic offset unrolls 160 copies through the real ladder under a symbolic guard and
  // did not finish in 2 h; the last four offsets (0x9c..=0x9f, unwind 164) did not finish in 29 min / 13 GB either.
  // Later offsets and completion of the transfer are decided by the recording-bus harnesses above.
  #[cfg(verif_thorough)]
  lad!(c16_ladder_wram_start, 0xc1, 10, 0, 3);

  #[kani::proof]
  #[kani::unwind(10)]
  #[kani::stub(crate::system::get_rom_buffer, vstub::stub_get_rom_buffer)]
  #[kani::stub(crate::mem::create_buffer, vstub::stub_create_buffer)]
  #[kani::stub(crate::devices::video::lcd::LCD::new, vstub::stub_lcd_new)]
  #[kani::stub(crate::mem::memory_read_byte, rec_read)]
  #[kani::stub(crate::mem::memory_write_byte, rec_write)]
  #[kani::stub(crate::devices::io::IO::run_clock_cycles, io_noop)]
  fn c16_witness_must_fail() {
    let h = Header::verif_with(0, 0, 0);
    let mut m = verif_areas(&h);
    m.verif_set_dma(Some((0xc100, 0x9e)));
    m.run_clock_cycles(ClockCycles(8));
    assert!(false, "C16.witness");
  }
  // VERIF-END verif_c16
}

#[cfg(all(kani, verif_c18))]
mod verif_c18 {
  use super::*;
  use crate::vassert;
  use crate::verif::vstub;

  /// Routing: over the whole bus, a byte write emits iff it is an SC write with bit 7, and then emits SB.
  #[kani::proof]
  #[kani::unwind(10)]
  #[kani::stub(crate::system::get_rom_buffer, vstub::stub_get_rom_buffer)]
  #[kani::stub(crate::mem::create_buffer, vstub::stub_create_buffer)]
  #[kani::stub(crate::devices::video::lcd::LCD::new, vstub::stub_lcd_new)]
  #[kani::stub(<std::io::Stdout as std::io::Write>::write, vstub::stub_stdout_write)]
  #[kani::stub(<std::io::Stdout as std::io::Write>::flush, vstub::stub_stdout_flush)]
  #[kani::stub(std::io::_print, vstub::stub_print)]
  #[kani::stub(<std::io::Stdout as std::io::Write>::write_all, vstub::stub_stdout_write_all)]
  #[kani::stub(<std::io::StdoutLock<'_> as std::io::Write>::write, vstub::stub_lock_write)]
  #[kani::stub(<std::io::StdoutLock<'_> as std::io::Write>::write_all, vstub::stub_lock_write_all)]
  #[kani::stub(<std::io::StdoutLock<'_> as std::io::Write>::flush, vstub::stub_lock_flush)]
  fn c18_bus_routing() {
    let h = Header::verif_with(0, 0, 0);
    let mut m = verif_areas(&h);
    let p = &mut m as *mut MemoryAreas;
    let sb: u8 = kani::any();
    let addr: u16 = kani::any();
    let v: u8 = kani::any();
    vstub::out_reset();
    memory_write_byte(p, 0xff01, sb);
    let n0 = vstub::out_len();
    memory_write_byte(p, addr, v);
    let n1 = vstub::out_len();
    let b0 = vstub::out_byte(0);
    // reads never emit
    let _ = memory_read_byte(p, kani::any());
    let n2 = vstub::out_len();
    vstub::out_finish();
    vassert!(n0 == 0, "C18.bus.sb_write_emits_nothing");
    if addr == 0xff02 && v & 0x80 != 0 {
      vassert!(n1 == 1, "C18.bus.sc_write_emits_one_byte");
      vassert!(b0 == sb, "C18.bus.sc_write_emits_sb");
    } else {
      vassert!(n1 == 0, "C18.bus.other_writes_emit_nothing");
    }
    vassert!(n2 == n1, "C18.bus.reads_emit_nothing");
    kani::cover!(addr == 0xff02 && v & 0x80 != 0, "reached");
    core::mem::forget(m);
  }

  /// Sequences of writes to SB/SC: stdout carries exactly the reference list, in order.
  fn seq(n: usize) {
    let h = Header::verif_with(0, 0, 0);
    let mut m = verif_areas(&h);
    let p = &mut m as *mut MemoryAreas;
    let mut latch: u8 = 0;
    let mut exp = [0u8; 8];
    let mut nexp = 0usize;
    vstub::out_reset();
    let mut i = 0;
    while i < n {
      let to_sc: bool = kani::any();
      let v: u8 = kani::any();
      if to_sc {
        memory_write_byte(p, 0xff02, v);
        if v & 0x80 != 0 { exp[nexp & 7] = latch; nexp += 1; }
      } else {
        memory_write_byte(p, 0xff01, v);
        latch = v;
      }
      i += 1;
    }
    let got = vstub::out_len();
    let (g0, g1, g2, g3) = (vstub::out_byte(0), vstub::out_byte(1), vstub::out_byte(2), vstub::out_byte(3));
    vstub::out_finish();
    vassert!(got == nexp, "C18.seq.count");
    if nexp > 0 { vassert!(g0 == exp[0], "C18.seq.byte0"); }
    if nexp > 1 { vassert!(g1 == exp[1], "C18.seq.byte1"); }
    if nexp > 2 { vassert!(g2 == exp[2], "C18.seq.byte2"); }
    if nexp > 3 { vassert!(g3 == exp[3], "C18.seq.byte3"); }
    kani::cover!(nexp == 2, "reached");
    core::mem::forget(m);
  }
  macro_rules! seqh {
    ($name:ident, $n:expr, $unwind:expr) => {
      #[kani::proof]
      #[kani::unwind($unwind)]
      #[kani::stub(crate::system::get_rom_buffer, vstub::stub_get_rom_buffer)]
      #[kani::stub(crate::mem::create_buffer, vstub::stub_create_buffer)]
      #[kani::stub(crate::devices::video::lcd::LCD::new, vstub::stub_lcd_new)]
      #[kani::stub(<std::io::Stdout as std::io::Write>::write, vstub::stub_stdout_write)]
      #[kani::stub(<std::io::Stdout as std::io::Write>::flush, vstub::stub_stdout_flush)]
      #[kani::stub(std::io::_print, vstub::stub_print)]
  #[kani::stub(<std::io::Stdout as std::io::Write>::write_all, vstub::stub_stdout_write_all)]
  #[kani::stub(<std::io::StdoutLock<'_> as std::io::Write>::write, vstub::stub_lock_write)]
  #[kani::stub(<std::io::StdoutLock<'_> as std::io::Write>::write_all, vstub::stub_lock_write_all)]
  #[kani::stub(<std::io::StdoutLock<'_> as std::io::Write>::flush, vstub::stub_lock_flush)]
      fn $name() { seq($n); }
    };
  }
  seqh!(c18_seq4, 4, 10);
  #[cfg(verif_thorough)]
  seqh!(c18_seq7, 7, 10);

  /// A 16-bit store straddling SB/SC (LD (0xff01),SP) writes SB first, then SC.
  #[kani::proof]
  #[kani::unwind(10)]
  #[kani::stub(crate::system::get_rom_buffer, vstub::stub_get_rom_buffer)]
  #[kani::stub(crate::mem::create_buffer, vstub::stub_create_buffer)]
  #[kani::stub(crate::devices::video::lcd::LCD::new, vstub::stub_lcd_new)]
  #[kani::stub(<std::io::Stdout as std::io::Write>::write, vstub::stub_stdout_write)]
  #[kani::stub(<std::io::Stdout as std::io::Write>::flush, vstub::stub_stdout_flush)]
  #[kani::stub(std::io::_print, vstub::stub_print)]
  #[kani::stub(<std::io::Stdout as std::io::Write>::write_all, vstub::stub_stdout_write_all)]
  #[kani::stub(<std::io::StdoutLock<'_> as std::io::Write>::write, vstub::stub_lock_write)]
  #[kani::stub(<std::io::StdoutLock<'_> as std::io::Write>::write_all, vstub::stub_lock_write_all)]
  #[kani::stub(<std::io::StdoutLock<'_> as std::io::Write>::flush, vstub::stub_lock_flush)]
  fn c18_word_store() {
    let h = Header::verif_with(0, 0, 0);
    let mut m = verif_areas(&h);
    let p = &mut m as *mut MemoryAreas;
    let old: u8 = kani::any();
    let w: u16 = kani::any();
    memory_write_byte(p, 0xff01, old);
    vstub::out_reset();
    memory_write_word(p, 0xff01, w);
    let n = vstub::out_len();
    let b0 = vstub::out_byte(0);
    vstub::out_finish();
    if w & 0x8000 != 0 {
      vassert!(n == 1 && b0 == (w & 0xff) as u8, "C18.word.low_byte_first");
    } else {
      vassert!(n == 0, "C18.word.bit7_clear");
    }
    kani::cover!(w & 0x8000 != 0, "reached");
    core::mem::forget(m);
  }
  // VERIF-END verif_c18
}
