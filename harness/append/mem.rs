/// Builds a `MemoryAreas` through the real loader path `with_rom_file` (so any
/// field the repository adds is initialised by its own code).  Callers must
/// stub `system::get_rom_buffer`, `mem::create_buffer` and `LCD::new`
/// (see `verif::vstub`) and `mem::forget` the result.
#[cfg(kani)]
pub fn verif_areas(header: &Header) -> MemoryAreas {
  let mut f = crate::verif::vstub::dummy_file();
  let m = MemoryAreas::with_rom_file(&mut f, header);
  core::mem::forget(f);
  m
}

#[cfg(kani)]
impl MemoryAreas {
  pub fn verif_dma_state(&self) -> Option<(usize, u8)> { self.oam_dma.map(|d| (d.source, d.current_offset)) }
  pub fn verif_set_dma(&mut self, s: Option<(usize, u8)>) {
    self.oam_dma = s.map(|(source, current_offset)| DMAState { source, current_offset });
  }
}

#[cfg(all(kani, verif_c11))]
mod verif_c11 {
  use super::*;
  use crate::vassert;
  use crate::verif::vstub;

  fn supported_type(sel: u8) -> u8 {
    match sel % 7 { 0 => 0x00, 1 => 0x01, 2 => 0x02, 3 => 0x03, 4 => 0x11, 5 => 0x12, _ => 0x13 }
  }

  /// kind: 0 ROM-only, 1 MBC1 family, 2 MBC3 family.  `op`: 0 read, 1 write, 2 word read, 3 word write.
  fn bus_total(kind: u8, op: u8) {
    let cart_type = match kind { 0 => 0x00u8, 1 => { let s: u8 = kani::any(); kani::assume(s >= 1 && s <= 3); s }, _ => { let s: u8 = kani::any(); kani::assume(s >= 0x11 && s <= 0x13); s } };
    let rom_code: u8 = kani::any();
    let ram_code: u8 = kani::any();
    let h = Header::verif_with(cart_type, rom_code, ram_code);
    let mut m = verif_areas(&h);
    let p = &mut m as *mut MemoryAreas;
    // arbitrary banking-register state: one guest write into each of the four
    // controller register windows, arbitrary values (the window base address is
    // concrete to keep the write ladder out of these four calls; C12 covers
    // symbolic addresses inside the windows)
    memory_write_byte(p, 0x0000, kani::any());
    memory_write_byte(p, 0x2000, kani::any());
    memory_write_byte(p, 0x4000, kani::any());
    memory_write_byte(p, 0x6000, kani::any());
    let addr: u16 = kani::any();
    match op {
      0 => { let _ = memory_read_byte(p, addr); }
      1 => { memory_write_byte(p, addr, kani::any()); }
      2 => { let _ = memory_read_word(p, addr); }
      _ => { memory_write_word(p, addr, kani::any()); }
    }
    kani::cover!(addr == 0xffff, "reached");
    core::mem::forget(m);
  }

  macro_rules! total {
    ($name:ident, $kind:expr, $op:expr) => {
      #[kani::proof]
      #[kani::unwind(6)]
      #[kani::stub(crate::system::get_rom_buffer, vstub::stub_get_rom_buffer)]
      #[kani::stub(crate::mem::create_buffer, vstub::stub_create_buffer)]
      #[kani::stub(crate::devices::video::lcd::LCD::new, vstub::stub_lcd_new)]
      #[kani::stub(<std::io::Stdout as std::io::Write>::write, vstub::stub_stdout_write)]
      #[kani::stub(<std::io::Stdout as std::io::Write>::flush, vstub::stub_stdout_flush)]
      fn $name() { bus_total($kind, $op); }
    };
  }
  total!(c11_romonly_read, 0, 0);
  total!(c11_romonly_write, 0, 1);
  total!(c11_romonly_readw, 0, 2);
  total!(c11_romonly_writew, 0, 3);
  total!(c11_mbc1_read, 1, 0);
  total!(c11_mbc1_write, 1, 1);
  total!(c11_mbc1_readw, 1, 2);
  total!(c11_mbc1_writew, 1, 3);
  total!(c11_mbc3_read, 2, 0);
  total!(c11_mbc3_write, 2, 1);
  total!(c11_mbc3_readw, 2, 2);
  total!(c11_mbc3_writew, 2, 3);

  #[kani::proof]
  #[kani::unwind(6)]
  #[kani::stub(crate::system::get_rom_buffer, vstub::stub_get_rom_buffer)]
  #[kani::stub(crate::mem::create_buffer, vstub::stub_create_buffer)]
  #[kani::stub(crate::devices::video::lcd::LCD::new, vstub::stub_lcd_new)]
  fn c11_witness_must_fail() {
    let h = Header::verif_with(0x01, kani::any(), kani::any());
    let mut m = verif_areas(&h);
    let p = &mut m as *mut MemoryAreas;
    memory_write_byte(p, 0x2000, kani::any());
    let _ = memory_read_byte(p, 0xc000);
    assert!(false, "C11.witness");
  }
  // VERIF-END verif_c11
}
