#[cfg(kani)]
pub mod verif_core {
  use super::*;
  use crate::cart::Header;
  use crate::devices::interrupts::InterruptFlag;

  /// A `Core` over a ROM-only 32 KiB cartridge built by the real loader path (constructor stubs required),
  /// with an empty code cache that is never entered in these harnesses.
  pub fn core_with(ime: u8, run: u8, iflag: u8, ie: u8) -> Core {
    let h = Header::verif_with(0, 0, 2);
    let mut memory = crate::mem::verif_areas(&h);
    memory.io.interrupt_flag = InterruptFlag::new(iflag & 0x1f);
    memory.io.interrupt_mask = ie & 0x1f;
    Core {
      cache: CodeCache::verif_new(64),
      registers: Registers::new(),
      last_block_cycle_length: 0,
      memory,
      interrupts_enabled: match ime % 3 { 0 => InterruptState::Disabled, 1 => InterruptState::EnableNext, _ => InterruptState::Enabled },
      run_state: match run % 3 { 0 => RunState::Run, 1 => RunState::Halt, _ => RunState::Stop },
    }
  }
  pub fn ime_of(c: &Core) -> u8 { match c.interrupts_enabled { InterruptState::Disabled => 0, InterruptState::EnableNext => 1, InterruptState::Enabled => 2 } }
  pub fn run_of(c: &Core) -> u8 { match c.run_state { RunState::Run => 0, RunState::Halt => 1, RunState::Stop => 2 } }
  pub fn vector_of(pending: u8) -> (u32, u8) {
    if pending & 1 != 0 { (0x40, 1) } else if pending & 2 != 0 { (0x48, 2) } else if pending & 4 != 0 { (0x50, 4) } else if pending & 8 != 0 { (0x58, 8) } else { (0x60, 16) }
  }
}

#[cfg(all(kani, verif_c07))]
mod verif_c07 {
  use super::*;
  use super::verif_core::*;
  use crate::vassert;
  use crate::verif::vstub;
  use crate::mem::memory_read_byte;

  fn ramlike(a: u16) -> bool { matches!(a, 0xc000..=0xdfff | 0xff80..=0xfffe | 0x8000..=0x9fff | 0xfe00..=0xfe9f) }

  /// window: 0 = any SP, 1 = work RAM / high RAM stacks, 2 = SP such that a push lands on IE/IF or wraps
  fn dispatch(window: u8) {
    let if0: u8 = kani::any::<u8>() & 0x1f;
    let ie0: u8 = kani::any::<u8>() & 0x1f;
    let ime: u8 = kani::any::<u8>() % 3;
    let run: u8 = kani::any::<u8>() % 3;
    let pc: u16 = kani::any();
    let sp: u16 = kani::any();
    let c0: u32 = (kani::any::<u8>() & 0x3f) as u32;
    match window {
      1 => kani::assume((sp >= 0xc002 && sp <= 0xdfff) || (sp >= 0xff82 && sp <= 0xfffe)),
      2 => kani::assume(sp == 0x0000 || sp == 0x0001 || sp == 0xff10 || sp == 0xff11 || sp == 0xffff || sp == 0xff81 || sp == 0xff80 || sp == 0xc000 || sp == 0xc001 || sp == 0xe001 || sp == 0xfea1 || sp == 0x8001 || sp == 0xff48),
      _ => {}
    }
    let mut c = core_with(ime, run, if0, ie0);
    c.registers.ip = pc as u32;
    c.registers.sp = sp as u32;
    c.registers.cycles = c0;
    c.registers.af = 0x1230; c.registers.bc = 0x4567; c.registers.de = 0x89ab; c.registers.hl = 0xcdef;
    let a1 = sp.wrapping_sub(1);
    let a2 = sp.wrapping_sub(2);
    let mp = &c.memory as *const MemoryAreas;
    let (m1_before, m2_before) = (memory_read_byte(mp, a1), memory_read_byte(mp, a2));
    c.handle_interrupt();
    let mp = &c.memory as *const MemoryAreas;
    let (m1_after, m2_after) = (memory_read_byte(mp, a1), memory_read_byte(mp, a2));
    let if1 = c.memory.io.interrupt_flag.as_u8();
    let ie1 = c.memory.io.interrupt_mask;
    let (ip1, sp1, cy1) = (c.registers.ip, c.registers.sp, c.registers.cycles);
    let (af1, bc1, de1, hl1) = (c.registers.af, c.registers.bc, c.registers.de, c.registers.hl);
    vassert!(af1 == 0x1230 && bc1 == 0x4567 && de1 == 0x89ab && hl1 == 0xcdef, "C07.other_registers_untouched");
    let pending = if0 & ie0;
    if pending == 0 {
      vassert!(run_of(&c) == run, "C07.idle.run_state_unchanged");
      vassert!(ime_of(&c) == ime, "C07.idle.ime_unchanged");
      vassert!(ip1 == pc as u32 && sp1 == sp as u32 && cy1 == c0, "C07.idle.registers_unchanged");
      vassert!(if1 == if0 && ie1 == ie0, "C07.idle.if_ie_unchanged");
      vassert!(m1_after == m1_before && m2_after == m2_before, "C07.idle.memory_unchanged");
    } else {
      vassert!(run_of(&c) == 0, "C07.wake.cpu_resumes");
      if ime != 2 {
        vassert!(ime_of(&c) == ime, "C07.masked.ime_unchanged");
        vassert!(ip1 == pc as u32 && sp1 == sp as u32 && cy1 == c0, "C07.masked.registers_unchanged");
        vassert!(if1 == if0 && ie1 == ie0, "C07.masked.if_ie_unchanged");
        vassert!(m1_after == m1_before && m2_after == m2_before, "C07.masked.memory_unchanged");
      } else {
        let hi = (pc >> 8) as u8;
        let lo = pc as u8;
        // first push: high byte at SP-1, then the pending set is sampled again
        let ie_a = if a1 == 0xffff { hi & 0x1f } else { ie0 };
        let if_a = if a1 == 0xff0f { hi & 0x1f } else { if0 };
        let pending_a = if_a & ie_a;
        let ie_b = if a2 == 0xffff { lo & 0x1f } else { ie_a };
        let if_b = if a2 == 0xff0f { lo & 0x1f } else { if_a };
        vassert!(ime_of(&c) == 0, "C07.dispatch.master_enable_cleared");
        vassert!(sp1 == a2 as u32, "C07.dispatch.sp_minus_2");
        vassert!(cy1 == c0 + 5, "C07.dispatch.five_cycles");
        if pending_a == 0 {
          vassert!(ip1 == 0x0000, "C07.cancel.pc_zero");
          if a2 != 0xff0f { vassert!(if1 == if_b, "C07.cancel.no_if_bit_cleared"); }
        } else {
          let (vec, clear) = vector_of(pending_a);
          vassert!(ip1 == vec, "C07.dispatch.vector_priority");
          if a2 != 0xff0f { vassert!(if1 == if_b & !clear, "C07.dispatch.only_that_if_bit_cleared"); }
        }
        if a2 != 0xffff { vassert!(ie1 == ie_b, "C07.dispatch.ie_as_written"); }
        if ramlike(a1) && a1 != a2 { vassert!(m1_after == hi, "C07.dispatch.high_byte_at_sp_minus_1"); }
        if ramlike(a2) { vassert!(m2_after == lo, "C07.dispatch.low_byte_at_sp_minus_2"); }
      }
    }
    kani::cover!(pending != 0 && ime == 2, "reached");
    core::mem::forget(c);
  }

  macro_rules! c07 {
    ($name:ident, $w:expr) => {
      #[kani::proof]
      #[kani::unwind(6)]
      #[kani::stub(crate::system::get_rom_buffer, vstub::stub_get_rom_buffer)]
      #[kani::stub(crate::mem::create_buffer, vstub::stub_create_buffer)]
      #[kani::stub(crate::devices::video::lcd::LCD::new, vstub::stub_lcd_new)]
      #[kani::stub(<std::io::Stdout as std::io::Write>::write, vstub::stub_stdout_write)]
      #[kani::stub(<std::io::Stdout as std::io::Write>::flush, vstub::stub_stdout_flush)]
      fn $name() { dispatch($w); }
    };
  }
  c07!(c07_dispatch_ram_stack, 1);
  c07!(c07_dispatch_edge_stack, 2);
  #[cfg(verif_thorough)]
  c07!(c07_dispatch_any_stack, 0);

  #[kani::proof]
  #[kani::unwind(6)]
  #[kani::stub(crate::system::get_rom_buffer, vstub::stub_get_rom_buffer)]
  #[kani::stub(crate::mem::create_buffer, vstub::stub_create_buffer)]
  #[kani::stub(crate::devices::video::lcd::LCD::new, vstub::stub_lcd_new)]
  fn c07_witness_must_fail() {
    let mut c = core_with(2, 0, kani::any(), kani::any());
    c.registers.sp = 0xd000;
    c.handle_interrupt();
    core::mem::forget(c);
    assert!(false, "C07.witness");
  }
  // VERIF-END verif_c07
}

#[cfg(all(kani, verif_c08))]
mod verif_c08 {
  use super::*;
  use super::verif_core::*;
  use crate::vassert;
  use crate::verif::{vstub, cpuh};

  /// Reference control machine of the statement: IME in {0 off, 1 pending (EI executed), 2 on}, run in {0 run, 1 halt, 2 stop}.
  #[derive(Clone, Copy)]
  struct RefCtl { ime: u8, run: u8, iflag: u8, ie: u8, pc: u16, sp: u16, dispatched: bool }

  /// letters: 0 EI, 1 DI, 2 RETI, 3 HALT, 4 STOP, 5 NOP, 6 LDH (0x0F),A (raise IF), 7 LDH (0xFF),A (write IE)
  fn letter_bytes(l: u8) -> [u8; 3] {
    match l { 0 => [0xfb, 0, 0], 1 => [0xf3, 0, 0], 2 => [0xd9, 0, 0], 3 => [0x76, 0, 0], 4 => [0x10, 0, 0], 5 => [0x00, 0, 0], 6 => [0xe0, 0x0f, 0], _ => [0xe0, 0xff, 0] }
  }

  fn ref_step(mut s: RefCtl, l: u8, a: u8, ret_addr: u16) -> RefCtl {
    s.dispatched = false;
    if s.run == 0 {
      // the instruction after EI has now completed: the pending enable takes effect, before this instruction's own effect
      if s.ime == 1 { s.ime = 2; }
      match l {
        0 => { if s.ime == 0 { s.ime = 1; } s.pc = s.pc.wrapping_add(1); }
        1 => { s.ime = 0; s.pc = s.pc.wrapping_add(1); }
        2 => { s.ime = 2; s.pc = ret_addr; s.sp = s.sp.wrapping_add(2); }
        3 => { s.run = 1; s.pc = s.pc.wrapping_add(1); }
        4 => { s.run = 2; s.pc = s.pc.wrapping_add(2); }
        5 => { s.pc = s.pc.wrapping_add(1); }
        6 => { s.iflag = a & 0x1f; s.pc = s.pc.wrapping_add(2); }
        _ => { s.ie = a & 0x1f; s.pc = s.pc.wrapping_add(2); }
      }
    }
    // interrupt check after every step (also while halted / stopped)
    let pending = s.iflag & s.ie;
    if pending != 0 {
      s.run = 0;
      if s.ime == 2 {
        let (vec, clear) = vector_of(pending);
        s.ime = 0;
        s.sp = s.sp.wrapping_sub(2);
        s.pc = vec as u16;
        s.iflag &= !clear;
        s.dispatched = true;
      }
    }
    s
  }

  /// One `Core::update()` from an arbitrary control state with the given instruction at PC.
  fn step(l: u8) {
    let ime: u8 = kani::any::<u8>() % 3;
    let run: u8 = kani::any::<u8>() % 3;
    let if0: u8 = kani::any::<u8>() & 0x1f;
    let ie0: u8 = kani::any::<u8>() & 0x1f;
    let a: u8 = kani::any();
    let ret_lo: u8 = kani::any();
    let ret_hi: u8 = kani::any();
    // excluded by the property: HALT executed while an enabled interrupt is already pending
    if l == 3 && run == 0 { kani::assume(if0 & ie0 == 0); }
    let pc: u16 = 0x0150;
    let sp: u16 = 0xdff0;
    let mut c = core_with(ime, run, if0, ie0);
    c.registers.ip = pc as u32;
    c.registers.sp = sp as u32;
    c.registers.af = (a as u32) << 8;
    // return address for RETI on the stack; instruction bytes at PC (the fetch stub serves the same bytes under Kani)
    let mp = &mut c.memory as *mut MemoryAreas;
    crate::mem::memory_write_byte(mp, sp, ret_lo);
    crate::mem::memory_write_byte(mp, sp.wrapping_add(1), ret_hi);
    let code = letter_bytes(l);
    c.memory.rom[pc as usize] = code[0]; c.memory.rom[pc as usize + 1] = code[1]; c.memory.rom[pc as usize + 2] = code[2];
    cpuh::set_code(code);
    let s0 = RefCtl { ime, run, iflag: if0, ie: ie0, pc, sp, dispatched: false };
    let want = ref_step(s0, l, a, ((ret_hi as u16) << 8) | ret_lo as u16);
    c.update();
    let (ip1, sp1) = (c.registers.ip, c.registers.sp);
    vassert!(ime_of(&c) == want.ime, "C08.step.master_enable");
    vassert!(run_of(&c) == want.run, "C08.step.run_state");
    vassert!(ip1 == want.pc as u32, "C08.step.pc");
    vassert!(sp1 == want.sp as u32, "C08.step.sp");
    vassert!(c.memory.io.interrupt_flag.as_u8() == want.iflag, "C08.step.if");
    vassert!(c.memory.io.interrupt_mask == want.ie, "C08.step.ie");
    // never a dispatch while the master enable is off
    if want.dispatched {
      vassert!(s0.ime == 2 || (s0.ime == 1 && s0.run == 0) || l == 2, "C08.dispatch_only_with_master_enable");
      let mp = &c.memory as *const MemoryAreas;
      // the pushed return address is the instruction following the one that just ran (or the halted PC)
      let pushed = (crate::mem::memory_read_byte(mp, want.sp) as u16) | ((crate::mem::memory_read_byte(mp, want.sp.wrapping_add(1)) as u16) << 8);
      let resume = if s0.run != 0 { pc } else { ref_step(RefCtl { iflag: 0, ie: 0, ..s0 }, l, a, ((ret_hi as u16) << 8) | ret_lo as u16).pc };
      vassert!(pushed == resume, "C08.dispatch.return_address");
    }
    kani::cover!(want.dispatched, "reached");
    core::mem::forget(c);
  }

  macro_rules! c08 {
    ($name:ident, $l:expr) => {
      #[kani::proof]
      #[kani::unwind(8)]
      #[kani::stub(crate::system::get_rom_buffer, vstub::stub_get_rom_buffer)]
      #[kani::stub(crate::mem::create_buffer, vstub::stub_create_buffer)]
      #[kani::stub(crate::devices::video::lcd::LCD::new, vstub::stub_lcd_new)]
      #[kani::stub(crate::mem::get_executable_memory_slice, cpuh::stub_fetch)]
      #[kani::stub(<std::io::Stdout as std::io::Write>::write, vstub::stub_stdout_write)]
      #[kani::stub(<std::io::Stdout as std::io::Write>::flush, vstub::stub_stdout_flush)]
      fn $name() { step($l); }
    };
  }
  c08!(c08_step_ei, 0);
  c08!(c08_step_di, 1);
  c08!(c08_step_reti, 2);
  c08!(c08_step_halt, 3);
  c08!(c08_step_stop, 4);
  c08!(c08_step_nop, 5);
  c08!(c08_step_raise_if, 6);
  c08!(c08_step_write_ie, 7);

  #[kani::proof]
  #[kani::unwind(8)]
  #[kani::stub(crate::system::get_rom_buffer, vstub::stub_get_rom_buffer)]
  #[kani::stub(crate::mem::create_buffer, vstub::stub_create_buffer)]
  #[kani::stub(crate::devices::video::lcd::LCD::new, vstub::stub_lcd_new)]
  #[kani::stub(crate::mem::get_executable_memory_slice, cpuh::stub_fetch)]
  fn c08_witness_must_fail() {
    let mut c = core_with(kani::any(), 0, kani::any(), kani::any());
    c.registers.ip = 0x150; c.registers.sp = 0xdff0;
    cpuh::set_code([0xfb, 0, 0]);
    c.update();
    core::mem::forget(c);
    assert!(false, "C08.witness");
  }
  // VERIF-END verif_c08
}

#[cfg(all(kani, verif_c03, feature = "jit"))]
mod verif_c03 {
  use super::*;
  use crate::vassert;
  use crate::verif::vstub;
  use crate::cart::Header;
  use crate::cache::verif_monitor as mon;

  fn noop_clock(_m: &mut MemoryAreas, _c: ClockCycles) {}

  /// L2 (glue invariant): whenever the cache is consulted for an address in 0x4000-0x7fff, the tag of the switchable
  /// region equals the bank mapped at that moment.  Pre-state satisfies the invariant; the executed block performs an
  /// arbitrary bank-register write; the NEXT step's lookup must still satisfy it (inductive step over histories).
  fn glue(kind: u8) {
    let cart_type = if kind == 1 { let s: u8 = kani::any(); kani::assume(s >= 1 && s <= 3); s } else { let s: u8 = kani::any(); kani::assume(s >= 0x11 && s <= 0x13); s };
    let h = Header::verif_with(cart_type, kani::any(), 0);
    let mut memory = crate::mem::verif_areas(&h);
    let p = &mut memory as *mut MemoryAreas;
    crate::mem::memory_write_byte(p, 0x2000, kani::any());
    crate::mem::memory_write_byte(p, 0x4000, kani::any());
    crate::mem::memory_write_byte(p, 0x6000, kani::any());
    let mut c = Core { cache: CodeCache::verif_new(64), registers: Registers::new(), last_block_cycle_length: 0, memory,
                       interrupts_enabled: InterruptState::Disabled, run_state: RunState::Run };
    // invariant in the pre-state
    c.cache.verif_set_rom_high_bank(c.memory.get_rom_bank() as u16);
    let ip0: u16 = kani::any();
    let ip1: u16 = kani::any();
    kani::assume(ip0 < 0x8000 && ip1 < 0x8000);
    c.registers.ip = ip0 as u32;
    let wa: u16 = kani::any();
    kani::assume(wa < 0x8000);
    unsafe {
      mon::MEM = &mut c.memory as *mut MemoryAreas;
      mon::WRITE_ADDR = wa; mon::WRITE_VAL = kani::any(); mon::NEXT_IP = ip1 as u32; mon::ADD_CYCLES = 1; mon::STATUS = 0;
      mon::TAG_OK = true; mon::LOOKUPS = 0;
      mon::EXPECTED_BANK = c.memory.get_rom_bank();
    }
    c.run_code_block();
    vassert!(unsafe { mon::TAG_OK }, "C03.glue.tag_matches_bank_at_first_lookup");
    // second step: the bank may have been switched by the block that just ran
    unsafe { mon::EXPECTED_BANK = c.memory.get_rom_bank(); mon::WRITE_ADDR = 0x0000; mon::WRITE_VAL = 0; }
    c.run_code_block();
    vassert!(unsafe { mon::TAG_OK }, "C03.glue.tag_follows_bank_switch");
    vassert!(unsafe { mon::LOOKUPS } >= 2, "C03.glue.cache_consulted");
    kani::cover!(ip1 >= 0x4000, "reached");
    core::mem::forget(c);
  }
  macro_rules! glue {
    ($name:ident, $k:expr) => {
      #[kani::proof]
      #[kani::unwind(6)]
      #[kani::stub(crate::system::get_rom_buffer, vstub::stub_get_rom_buffer)]
      #[kani::stub(crate::mem::create_buffer, vstub::stub_create_buffer)]
      #[kani::stub(crate::devices::video::lcd::LCD::new, vstub::stub_lcd_new)]
      #[kani::stub(crate::cache::CodeCache::get_address_for_ip, mon::get_address_for_ip)]
      #[kani::stub(crate::cache::CodeCache::translate_code_block, mon::translate_code_block)]
      #[kani::stub(crate::cache::CodeCache::call, mon::call)]
      #[kani::stub(crate::interpreter::run_code_block, mon::interp_block)]
      #[kani::stub(crate::mem::MemoryAreas::run_clock_cycles, noop_clock)]
      fn $name() { glue($k); }
    };
  }
  glue!(c03_glue_mbc1, 1);
  glue!(c03_glue_mbc3, 3);

  #[kani::proof]
  #[kani::unwind(6)]
  #[kani::stub(crate::system::get_rom_buffer, vstub::stub_get_rom_buffer)]
  #[kani::stub(crate::mem::create_buffer, vstub::stub_create_buffer)]
  #[kani::stub(crate::devices::video::lcd::LCD::new, vstub::stub_lcd_new)]
  #[kani::stub(crate::cache::CodeCache::get_address_for_ip, mon::get_address_for_ip)]
  #[kani::stub(crate::cache::CodeCache::translate_code_block, mon::translate_code_block)]
  #[kani::stub(crate::cache::CodeCache::call, mon::call)]
  #[kani::stub(crate::interpreter::run_code_block, mon::interp_block)]
  #[kani::stub(crate::mem::MemoryAreas::run_clock_cycles, noop_clock)]
  fn c03_witness_must_fail() {
    glue(1);
    assert!(false, "C03.witness");
  }
  // VERIF-END verif_c03
}

/// Shared monitors for the accounting (C09) and tail-equivalence (C04) harnesses.
#[cfg(kani)]
pub mod verif_glue {
  use super::*;
  use crate::devices::io::IO;
  pub static mut DELIVERED: usize = 0x5a5a_0a0a_0a0a;
  pub static mut DELIVER_CALLS: usize = 0x5a5a_0b0b_0b0b;
  pub static mut SAMPLED_EARLY: bool = true;
  pub static mut K: u32 = 0x6666_6666;
  pub static mut OP_STATUS: u8 = 0x77;
  pub static mut OP_BRK: bool = true;
  pub static mut OP_NEXT_IP: u32 = 0x7878_7878;
  pub fn reset(k: u32, status: u8, next_ip: u32) { unsafe { DELIVERED = 0; DELIVER_CALLS = 0; SAMPLED_EARLY = false; K = k; OP_STATUS = status; OP_BRK = kani::any(); OP_NEXT_IP = next_ip; } }
  pub fn mon_clock(_m: &mut MemoryAreas, c: ClockCycles) { unsafe { DELIVERED += c.0; DELIVER_CALLS += 1; } }
  pub fn mon_active(io: &IO) -> u8 { unsafe { if DELIVER_CALLS == 0 { SAMPLED_EARLY = true; } } io.interrupt_flag.as_u8() & io.interrupt_mask }
  /// the CPU executor, cut to "consumes K >= 1 machine cycles, ends at OP_NEXT_IP, signals OP_STATUS"
  pub fn stub_next_op(registers: &mut Registers, _mem: *mut MemoryAreas) -> Option<(u8, bool)> {
    unsafe { registers.cycles += K; registers.ip = OP_NEXT_IP; Some((OP_STATUS, OP_BRK)) }
  }
  pub fn stub_block(registers: &mut Registers, _mem: *mut MemoryAreas) -> u8 {
    unsafe { crate::cache::verif_monitor::ENTERED_INTERP = true; registers.cycles += K; registers.ip = OP_NEXT_IP; OP_STATUS }
  }
  pub fn stub_call(_c: &CodeCache, _offset: usize, registers: &mut Registers) -> u8 {
    unsafe { registers.cycles += K; registers.ip = OP_NEXT_IP; OP_STATUS }
  }
}

#[cfg(all(kani, any(verif_c09, verif_c04)))]
mod verif_c09 {
  use super::*;
  use super::verif_core::*;
  use super::verif_glue as g;
  use crate::vassert;
  use crate::verif::vstub;
  use crate::cache::verif_monitor as mon;

  /// `Core::update()`: clocks delivered to the devices = 4 x (pending + consumed) machine cycles, delivered once and
  /// before interrupts are sampled; a halted step delivers exactly 4; a dispatch leaves exactly 5 cycles pending.
  fn accounting(ip: u16) {
    let ime: u8 = kani::any::<u8>() % 3;
    let run: u8 = kani::any::<u8>() % 3;
    let if0: u8 = kani::any::<u8>() & 0x1f;
    let ie0: u8 = kani::any::<u8>() & 0x1f;
    let p: u32 = (kani::any::<u8>() & 0x3f) as u32;
    let k: u32 = kani::any::<u8>() as u32;
    kani::assume(k >= 1);
    let mut c = core_with(ime, run, if0, ie0);
    c.registers.ip = ip as u32;
    // an ordinary work-RAM stack, or SP = 0 where the first pushed byte lands on IE and can cancel the dispatch:
    // the five cycles are charged either way
    c.registers.sp = if kani::any() { 0xdff0 } else { 0x0000 };
    c.registers.cycles = p;
    g::reset(k, 0, ip.wrapping_add(1) as u32);
    unsafe { mon::ENTERED_CACHE = false; mon::ENTERED_INTERP = false; mon::TAG_OK = true; mon::LOOKUPS = 0; mon::EXPECTED_BANK = 1; }
    c.update();
    let delivered = unsafe { g::DELIVERED };
    let calls = unsafe { g::DELIVER_CALLS };
    let cy = c.registers.cycles;
    let pending = if0 & ie0;
    vassert!(calls == 1, "C09.delivered_exactly_once_per_step");
    vassert!(!unsafe { g::SAMPLED_EARLY }, "C09.devices_caught_up_before_interrupts_sampled");
    vassert!(delivered >= 4, "C09.every_step_advances_time");
    if run == 0 {
      vassert!(delivered == 4 * (p + k) as usize, "C09.run.delivered_is_4x_consumed");
      // instruction-stepped build promotes a pending EI after the instruction; block-stepped build has no pending state to promote
      let ime_after = if cfg!(feature = "jit") { ime } else if ime == 1 { 2 } else { ime };
      let dispatched = pending != 0 && ime_after == 2;
      vassert!(cy == if dispatched { 5 } else { 0 }, "C09.run.dispatch_leaves_five_cycles_pending");
      #[cfg(feature = "jit")]
      { vassert!(c.last_block_cycle_length == (p + k) as usize, "C09.run.block_cycle_length"); }
    } else {
      vassert!(delivered == 4, "C09.halted.one_machine_cycle_per_step");
      let dispatched = pending != 0 && ime == 2;
      vassert!(cy == p + if dispatched { 5 } else { 0 }, "C09.halted.cpu_cycles_untouched");
    }
    kani::cover!(pending != 0 && run == 0, "reached");
    core::mem::forget(c);
  }

  macro_rules! acc {
    ($name:ident, $ip:expr) => {
      #[kani::proof]
      #[kani::unwind(6)]
      #[kani::stub(crate::system::get_rom_buffer, vstub::stub_get_rom_buffer)]
      #[kani::stub(crate::mem::create_buffer, vstub::stub_create_buffer)]
      #[kani::stub(crate::devices::video::lcd::LCD::new, vstub::stub_lcd_new)]
      #[kani::stub(crate::mem::MemoryAreas::run_clock_cycles, g::mon_clock)]
      #[kani::stub(crate::devices::io::IO::get_active_interrupts, g::mon_active)]
      #[kani::stub(crate::interpreter::run_next_op, g::stub_next_op)]
      #[kani::stub(crate::interpreter::run_code_block, g::stub_block)]
      #[kani::stub(crate::cache::CodeCache::get_address_for_ip, mon::get_address_for_ip)]
      #[kani::stub(crate::cache::CodeCache::translate_code_block, mon::translate_code_block)]
      #[kani::stub(crate::cache::CodeCache::call, g::stub_call)]
      fn $name() { accounting($ip); }
    };
  }
  acc!(c09_accounting_rom, 0x0150);
  acc!(c09_accounting_wram, 0xc100);

  /// `Core::run_code_block` tail against its specification, the same in both builds (this is C04's glue obligation):
  /// status -> run state / master enable, cycles delivered, pending cycles, and which executor was entered.
  fn tail(ip: u16) {
    let ime: u8 = kani::any::<u8>() % 3;
    let if0: u8 = kani::any::<u8>() & 0x1f;
    let ie0: u8 = kani::any::<u8>() & 0x1f;
    let p: u32 = (kani::any::<u8>() & 0x3f) as u32;
    let k: u32 = kani::any::<u8>() as u32;
    kani::assume(k >= 1);
    let status: u8 = kani::any();
    let next: u16 = kani::any();
    let mut c = core_with(ime, 0, if0, ie0);
    c.registers.ip = ip as u32;
    c.registers.sp = 0xdff0;
    c.registers.cycles = p;
    g::reset(k, status, next as u32);
    unsafe { mon::ENTERED_CACHE = false; mon::ENTERED_INTERP = false; mon::TAG_OK = true; mon::LOOKUPS = 0; mon::EXPECTED_BANK = 1; }
    c.run_code_block();
    // specification of the tail
    let run_want = match status { 1 => 2, 2 => 1, _ => 0 };                 // STOP -> stop, HALT -> halt
    let ime_mid = match status { 3 => 0, 4 | 5 => 2, _ => ime };            // DI / EI / RETI
    let pending = if0 & ie0;
    let woke = pending != 0;
    let dispatched = woke && ime_mid == 2;
    vassert!(run_of(&c) == if woke { 0 } else { run_want }, "C04.tail.run_state");
    vassert!(ime_of(&c) == if dispatched { 0 } else { ime_mid }, "C04.tail.master_enable");
    vassert!(unsafe { g::DELIVERED } == 4 * (p + k) as usize && unsafe { g::DELIVER_CALLS } == 1, "C04.tail.clocks_delivered");
    vassert!(c.last_block_cycle_length == (p + k) as usize, "C04.tail.block_cycle_length");
    let (cy, ip1, sp1) = (c.registers.cycles, c.registers.ip, c.registers.sp);
    vassert!(cy == if dispatched { 5 } else { 0 }, "C04.tail.pending_cycles");
    if dispatched {
      vassert!(ip1 == vector_of(pending).0 && sp1 == 0xdfee, "C04.tail.dispatch");
      let mp = &c.memory as *const MemoryAreas;
      let pushed = (crate::mem::memory_read_byte(mp, 0xdfee) as u16) | ((crate::mem::memory_read_byte(mp, 0xdfef) as u16) << 8);
      vassert!(pushed == next, "C04.tail.return_address");
    } else {
      vassert!(ip1 == next as u32 && sp1 == 0xdff0, "C04.tail.no_dispatch");
    }
    // executor selection: translated code only for ROM addresses, and only in the recompiler build
    let (cache_in, interp_in) = unsafe { (mon::ENTERED_CACHE, mon::ENTERED_INTERP) };
    if cfg!(feature = "jit") && ip < 0x8000 { vassert!(cache_in && !interp_in, "C04.tail.rom_uses_translation"); }
    else { vassert!(!cache_in && interp_in, "C04.tail.non_rom_uses_interpreter"); }
    kani::cover!(dispatched, "reached");
    core::mem::forget(c);
  }
  macro_rules! tailh {
    ($name:ident, $ip:expr) => {
      #[cfg(verif_c04)]
      #[kani::proof]
      #[kani::unwind(6)]
      #[kani::stub(crate::system::get_rom_buffer, vstub::stub_get_rom_buffer)]
      #[kani::stub(crate::mem::create_buffer, vstub::stub_create_buffer)]
      #[kani::stub(crate::devices::video::lcd::LCD::new, vstub::stub_lcd_new)]
      #[kani::stub(crate::mem::MemoryAreas::run_clock_cycles, g::mon_clock)]
      #[kani::stub(crate::interpreter::run_code_block, g::stub_block)]
      #[kani::stub(crate::cache::CodeCache::get_address_for_ip, mon::get_address_for_ip)]
      #[kani::stub(crate::cache::CodeCache::translate_code_block, mon::translate_code_block)]
      #[kani::stub(crate::cache::CodeCache::call, g::stub_call)]
      fn $name() { tail($ip); }
    };
  }
  tailh!(c04_tail_rom_low, 0x0150);
  tailh!(c04_tail_rom_high, 0x7ff0);
  tailh!(c04_tail_wram, 0xc100);
  tailh!(c04_tail_hram, 0xff80);

  #[kani::proof]
  #[kani::unwind(6)]
  #[kani::stub(crate::system::get_rom_buffer, vstub::stub_get_rom_buffer)]
  #[kani::stub(crate::mem::create_buffer, vstub::stub_create_buffer)]
  #[kani::stub(crate::devices::video::lcd::LCD::new, vstub::stub_lcd_new)]
  #[kani::stub(crate::mem::MemoryAreas::run_clock_cycles, g::mon_clock)]
  #[kani::stub(crate::interpreter::run_next_op, g::stub_next_op)]
  #[kani::stub(crate::interpreter::run_code_block, g::stub_block)]
  #[kani::stub(crate::cache::CodeCache::get_address_for_ip, mon::get_address_for_ip)]
  #[kani::stub(crate::cache::CodeCache::translate_code_block, mon::translate_code_block)]
  #[kani::stub(crate::cache::CodeCache::call, g::stub_call)]
  fn c09_witness_must_fail() {
    let mut c = core_with(kani::any(), 0, kani::any(), kani::any());
    c.registers.sp = 0xdff0;
    g::reset(1, 0, 0x151);
    c.update();
    core::mem::forget(c);
    assert!(false, "C09.witness");
  }
  // VERIF-END verif_c09
}
