#[cfg(kani)]
pub mod verif_core {
  use super::*;
  use crate::cart::Header;
  use crate::devices::interrupts::InterruptFlag;

  /// A `Core` over a ROM-only 32 KiB cartridge built by the real loader path (constructor stubs required),
  /// with an empty code cache that is never entered in these harnesses.
  pub fn core_with(ime: u8, run: u8, iflag: u8, ie: u8) -> Core {
    let h = Header::verif_with(0, 0, 2);
    let mut memory = crate::mem::verif_areas(&h);
    memory.io.interrupt_flag = InterruptFlag::new(iflag & 0x1f);
    memory.io.interrupt_mask = ie & 0x1f;
    Core {
      cache: CodeCache::verif_new(64),
      registers: Registers::new(),
      last_block_cycle_length: 0,
      memory,
      interrupts_enabled: match ime % 3 { 0 => InterruptState::Disabled, 1 => InterruptState::EnableNext, _ => InterruptState::Enabled },
      run_state: match run % 3 { 0 => RunState::Run, 1 => RunState::Halt, _ => RunState::Stop },
    }
  }
  pub fn ime_of(c: &Core) -> u8 { match c.interrupts_enabled { InterruptState::Disabled => 0, InterruptState::EnableNext => 1, InterruptState::Enabled => 2 } }
  pub fn run_of(c: &Core) -> u8 { match c.run_state { RunState::Run => 0, RunState::Halt => 1, RunState::Stop => 2 } }
  pub fn vector_of(pending: u8) -> (u32, u8) {
    if pending & 1 != 0 { (0x40, 1) } else if pending & 2 != 0 { (0x48, 2) } else if pending & 4 != 0 { (0x50, 4) } else if pending & 8 != 0 { (0x58, 8) } else { (0x60, 16) }
  }
}

#[cfg(all(kani, verif_c07))]
mod verif_c07 {
  use super::*;
  use super::verif_core::*;
  use crate::vassert;
  use crate::verif::vstub;
  use crate::mem::memory_read_byte;

  fn ramlike(a: u16) -> bool { matches!(a, 0xc000..=0xdfff | 0xff80..=0xfffe | 0x8000..=0x9fff | 0xfe00..=0xfe9f) }

  /// window: 0 = any SP, 1 = work RAM / high RAM stacks, 2 = SP such that a push lands on IE/IF or wraps
  fn dispatch(window: u8) {
    let if0: u8 = kani::any::<u8>() & 0x1f;
    let ie0: u8 = kani::any::<u8>() & 0x1f;
    let ime: u8 = kani::any::<u8>() % 3;
    let run: u8 = kani::any::<u8>() % 3;
    let pc: u16 = kani::any();
    let sp: u16 = kani::any();
    let c0: u32 = (kani::any::<u8>() & 0x3f) as u32;
    match window {
      1 => kani::assume((sp >= 0xc002 && sp <= 0xdfff) || (sp >= 0xff82 && sp <= 0xfffe)),
      2 => kani::assume(sp == 0x0000 || sp == 0x0001 || sp == 0xff10 || sp == 0xff11 || sp == 0xffff || sp == 0xff81 || sp == 0xff80 || sp == 0xc000 || sp == 0xc001 || sp == 0xe001 || sp == 0xfea1 || sp == 0x8001 || sp == 0xff48),
      _ => {}
    }
    let mut c = core_with(ime, run, if0, ie0);
    c.registers.ip = pc as u32;
    c.registers.sp = sp as u32;
    c.registers.cycles = c0;
    c.registers.af = 0x1230; c.registers.bc = 0x4567; c.registers.de = 0x89ab; c.registers.hl = 0xcdef;
    let a1 = sp.wrapping_sub(1);
    let a2 = sp.wrapping_sub(2);
    let mp = &c.memory as *const MemoryAreas;
    let (m1_before, m2_before) = (memory_read_byte(mp, a1), memory_read_byte(mp, a2));
    c.handle_interrupt();
    let mp = &c.memory as *const MemoryAreas;
    let (m1_after, m2_after) = (memory_read_byte(mp, a1), memory_read_byte(mp, a2));
    let if1 = c.memory.io.interrupt_flag.as_u8();
    let ie1 = c.memory.io.interrupt_mask;
    let (ip1, sp1, cy1) = (c.registers.ip, c.registers.sp, c.registers.cycles);
    let (af1, bc1, de1, hl1) = (c.registers.af, c.registers.bc, c.registers.de, c.registers.hl);
    vassert!(af1 == 0x1230 && bc1 == 0x4567 && de1 == 0x89ab && hl1 == 0xcdef, "C07.other_registers_untouched");
    let pending = if0 & ie0;
    if pending == 0 {
      vassert!(run_of(&c) == run, "C07.idle.run_state_unchanged");
      vassert!(ime_of(&c) == ime, "C07.idle.ime_unchanged");
      vassert!(ip1 == pc as u32 && sp1 == sp as u32 && cy1 == c0, "C07.idle.registers_unchanged");
      vassert!(if1 == if0 && ie1 == ie0, "C07.idle.if_ie_unchanged");
      vassert!(m1_after == m1_before && m2_after == m2_before, "C07.idle.memory_unchanged");
    } else {
      vassert!(run_of(&c) == 0, "C07.wake.cpu_resumes");
      if ime != 2 {
        vassert!(ime_of(&c) == ime, "C07.masked.ime_unchanged");
        vassert!(ip1 == pc as u32 && sp1 == sp as u32 && cy1 == c0, "C07.masked.registers_unchanged");
        vassert!(if1 == if0 && ie1 == ie0, "C07.masked.if_ie_unchanged");
        vassert!(m1_after == m1_before && m2_after == m2_before, "C07.masked.memory_unchanged");
      } else {
        let hi = (pc >> 8) as u8;
        let lo = pc as u8;
        // first push: high byte at SP-1, then the pending set is sampled again
        let ie_a = if a1 == 0xffff { hi & 0x1f } else { ie0 };
        let if_a = if a1 == 0xff0f { hi & 0x1f } else { if0 };
        let pending_a = if_a & ie_a;
        let ie_b = if a2 == 0xffff { lo & 0x1f } else { ie_a };
        let if_b = if a2 == 0xff0f { lo & 0x1f } else { if_a };
        vassert!(ime_of(&c) == 0, "C07.dispatch.master_enable_cleared");
        vassert!(sp1 == a2 as u32, "C07.dispatch.sp_minus_2");
        vassert!(cy1 == c0 + 5, "C07.dispatch.five_cycles");
        if pending_a == 0 {
          vassert!(ip1 == 0x0000, "C07.cancel.pc_zero");
          if a2 != 0xff0f { vassert!(if1 == if_b, "C07.cancel.no_if_bit_cleared"); }
        } else {
          let (vec, clear) = vector_of(pending_a);
          vassert!(ip1 == vec, "C07.dispatch.vector_priority");
          if a2 != 0xff0f { vassert!(if1 == if_b & !clear, "C07.dispatch.only_that_if_bit_cleared"); }
        }
        if a2 != 0xffff { vassert!(ie1 == ie_b, "C07.dispatch.ie_as_written"); }
        if ramlike(a1) && a1 != a2 { vassert!(m1_after == hi, "C07.dispatch.high_byte_at_sp_minus_1"); }
        if ramlike(a2) { vassert!(m2_after == lo, "C07.dispatch.low_byte_at_sp_minus_2"); }
      }
    }
    kani::cover!(pending != 0 && ime == 2, "reached");
    core::mem::forget(c);
  }

  macro_rules! c07 {
    ($name:ident, $w:expr) => {
      #[kani::proof]
      #[kani::unwind(6)]
      #[kani::stub(crate::system::get_rom_buffer, vstub::stub_get_rom_buffer)]
      #[kani::stub(crate::mem::create_buffer, vstub::stub_create_buffer)]
      #[kani::stub(crate::devices::video::lcd::LCD::new, vstub::stub_lcd_new)]
      #[kani::stub(<std::io::Stdout as std::io::Write>::write, vstub::stub_stdout_write)]
      #[kani::stub(<std::io::Stdout as std::io::Write>::flush, vstub::stub_stdout_flush)]
      fn $name() { dispatch($w); }
    };
  }
  c07!(c07_dispatch_ram_stack, 1);
  c07!(c07_dispatch_edge_stack, 2);
  #[cfg(verif_thorough)]
  c07!(c07_dispatch_any_stack, 0);

  #[kani::proof]
  #[kani::unwind(6)]
  #[kani::stub(crate::system::get_rom_buffer, vstub::stub_get_rom_buffer)]
  #[kani::stub(crate::mem::create_buffer, vstub::stub_create_buffer)]
  #[kani::stub(crate::devices::video::lcd::LCD::new, vstub::stub_lcd_new)]
  fn c07_witness_must_fail() {
    let mut c = core_with(2, 0, kani::any(), kani::any());
    c.registers.sp = 0xd000;
    c.handle_interrupt();
    core::mem::forget(c);
    assert!(false, "C07.witness");
  }
  // VERIF-END verif_c07
}
