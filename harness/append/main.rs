#[cfg(all(kani, verif_c19))]
mod verif_c19 {
  use super::*;
  use crate::vassert;
  use crate::verif::vstub;

  fn ref_checksum_ok(raw: &[u8; 80]) -> bool {
    let mut x: u8 = 0;
    let mut i = 0x34;
    while i <= 0x4c { x = x.wrapping_sub(raw[i]).wrapping_sub(1); i += 1; }
    x == raw[0x4d]
  }

  /// The load decision of the real `load_rom` (open, read_header, checksum, sizing, mapping).
  fn load_decision(supported_only: bool) {
    let raw: [u8; 80] = kani::any();
    let len: u64 = kani::any();
    kani::assume(len <= (9u64 << 20));
    let kind = crate::cart::verif_ref_kind(raw[0x47]);
    if supported_only { kani::assume(kind != 255); }
    let name = vstub::make_rom_file(&raw, len);
    let r = load_rom(name);
    let rom_bytes = crate::cart::verif_ref_rom_banks(raw[0x48]) * 16384;
    let ram_bytes = crate::cart::verif_ref_ram_bytes(raw[0x49]);
    let header_present = len >= 0x150;
    let should_accept = header_present && ref_checksum_ok(&raw) && (len as usize) >= rom_bytes;
    match r {
      None => {
        vassert!(!(header_present && ref_checksum_ok(&raw) && (len as usize) >= rom_bytes), "C19.load.rejects_a_valid_file");
      }
      Some(core) => {
        vassert!(header_present, "C19.load.accepts_file_shorter_than_header");
        vassert!(!header_present || ref_checksum_ok(&raw), "C19.load.accepts_bad_checksum");
        vassert!((len as usize) >= rom_bytes, "C19.load.accepts_file_smaller_than_declared_size");
        vassert!(core.memory.rom.len() == rom_bytes, "C19.load.rom_size_from_table");
        vassert!(core.memory.cart_ram.len() == ram_bytes, "C19.load.ram_size_from_table");
        #[cfg(not(verif_playback))]
        { vassert!(!vstub::mapped_beyond_file(), "C19.load.maps_beyond_end_of_file"); }
        core::mem::forget(core);
      }
    }
    kani::cover!(should_accept, "reached");
  }


  /// `system::read_header` alone against the ghost file: Ok exactly when the 80 header bytes exist, and then equal to them.
  #[cfg(verif_thorough)]
  #[kani::proof]
  #[kani::unwind(28)]
  #[kani::stub(<std::fs::File as std::io::Seek>::seek, vstub::stub_file_seek)]
  #[kani::stub(<std::fs::File as std::io::Read>::read, vstub::stub_file_read)]
  fn c19_read_header() {
    let raw: [u8; 80] = kani::any();
    let len: u64 = kani::any();
    kani::assume(len <= (9u64 << 20));
    let _name = vstub::make_rom_file(&raw, len);
    let mut f = vstub::open_for_read_header(_name);
    let r = crate::system::read_header(&mut f);
    core::mem::forget(f);
    match r {
      Ok(h) => {
        vassert!(len >= 0x150, "C19.read_header.accepts_truncated_header");
        let probe: usize = kani::any();
        kani::assume(probe < 80);
        let got: [u8; 80] = unsafe { core::mem::transmute(h) };
        vassert!(got[probe] == raw[probe], "C19.read_header.bytes");
      }
      Err(e) => {
        vassert!(len < 0x150, "C19.read_header.rejects_complete_header");
        core::mem::forget(e);
      }
    }
    kani::cover!(len == 0x14f, "reached");
  }


  /// The real `system::read_header` on files cut at the interesting lengths (concrete lengths keep the read loop
  /// concrete; the thorough tier has the same check with a symbolic length).
  fn read_header_at(len: u64) {
    let raw: [u8; 80] = kani::any();
    let _name = vstub::make_rom_file(&raw, len);
    let mut f = vstub::open_for_read_header(_name);
    let r = crate::system::read_header(&mut f);
    core::mem::forget(f);
    match r {
      Ok(h) => {
        vassert!(len >= 0x150, "C19.read_header.accepts_truncated_header");
        let probe: usize = kani::any();
        kani::assume(probe < 80);
        let got: [u8; 80] = unsafe { core::mem::transmute(h) };
        vassert!(got[probe] == raw[probe], "C19.read_header.bytes");
      }
      Err(e) => {
        vassert!(len < 0x150, "C19.read_header.rejects_complete_header");
        core::mem::forget(e);
      }
    }
  }
  #[kani::proof]
  #[kani::unwind(6)]
  #[kani::stub(<std::fs::File as std::io::Seek>::seek, vstub::stub_file_seek)]
  #[kani::stub(<std::fs::File as std::io::Read>::read, vstub::stub_file_read)]
  fn c19_read_header_cut_files() {
    read_header_at(0);
    read_header_at(0x100);
    read_header_at(0x101);
    read_header_at(0x14e);
    read_header_at(0x14f);
    read_header_at(0x150);
    read_header_at(0x8000);
    kani::cover!(true, "reached");
  }

  macro_rules! loadh {
    ($name:ident, $sup:expr) => {
      #[kani::proof]
      #[kani::unwind(28)]
      #[kani::stub(crate::system::open_rom_file, vstub::stub_open_rom_file)]
      #[kani::stub(<std::fs::File as std::io::Seek>::seek, vstub::stub_file_seek)]
      #[kani::stub(crate::system::read_header, vstub::stub_read_header)]
      #[kani::stub(<std::os::fd::OwnedFd as std::ops::Drop>::drop, vstub::stub_ownedfd_drop)]
      #[kani::stub(crate::system::get_rom_buffer, vstub::stub_get_rom_buffer_contract)]
      #[kani::stub(crate::mem::create_buffer, vstub::stub_create_buffer)]
      #[kani::stub(crate::devices::video::lcd::LCD::new, vstub::stub_lcd_new)]
      #[kani::stub(crate::cache::CodeCache::new, vstub::stub_codecache_new)]
      #[kani::stub(crate::cart::Header::get_title, vstub::stub_get_title)]
      fn $name() { load_decision($sup); }
    };
  }
  loadh!(c19_load_decision, true);

  #[kani::proof]
  #[kani::unwind(28)]
  #[kani::stub(crate::system::open_rom_file, vstub::stub_open_rom_file)]
  #[kani::stub(<std::fs::File as std::io::Seek>::seek, vstub::stub_file_seek)]
  #[kani::stub(crate::system::read_header, vstub::stub_read_header)]
      #[kani::stub(<std::os::fd::OwnedFd as std::ops::Drop>::drop, vstub::stub_ownedfd_drop)]
  #[kani::stub(crate::system::get_rom_buffer, vstub::stub_get_rom_buffer_contract)]
  #[kani::stub(crate::mem::create_buffer, vstub::stub_create_buffer)]
  #[kani::stub(crate::devices::video::lcd::LCD::new, vstub::stub_lcd_new)]
  #[kani::stub(crate::cache::CodeCache::new, vstub::stub_codecache_new)]
  #[kani::stub(crate::cart::Header::get_title, vstub::stub_get_title)]
  fn c19_witness_must_fail() {
    let raw: [u8; 80] = kani::any();
    let name = vstub::make_rom_file(&raw, kani::any());
    let r = load_rom(name);
    if let Some(c) = r { core::mem::forget(c); }
    assert!(false, "C19.witness");
  }
  // VERIF-END verif_c19
}
