#[cfg(all(kani, verif_c20))]
mod verif_c20 {
  use super::*;
  use crate::vassert;

  fn stub_op_fmt(_op: &crate::decoder::ops::Op, _f: &mut std::fmt::Formatter<'_>) -> std::fmt::Result { Ok(()) }

  /// One opcode (concrete first byte, symbolic operand bytes) in two layouts:
  /// [op.., NOP] and [NOP, op..] (op last, ending exactly on the slice end).
  fn tile_one(first: u8, cb: Option<u8>) {
    let x: u8 = kani::any();
    let y: u8 = kani::any();
    let base: u16 = kani::any();
    let ins = match cb { Some(second) => [first, second, y], None => [first, x, y] };
    let (_op, len, _clocks) = decoder::decode(&ins);
    vassert!(len >= 1 && len <= 3, "C20.dis.decoder_length_range");
    // layout A (thorough tier): op first, then NOP
    #[cfg(verif_thorough)]
    {
    let mut a = [0u8; 4];
    let mut i = 0;
    while i < len { a[i] = ins[i]; i += 1; }
    a[len] = 0x00;
    let out = disassemble(base, &a[..len + 1]);
    vassert!(out.len() == 2, "C20.dis.count_op_first");
    if out.len() == 2 {
      vassert!(out[0].address == base && out[0].length == len, "C20.dis.first_entry");
      vassert!(out[1].address == base.wrapping_add(len as u16) && out[1].length == 1, "C20.dis.second_entry");
      let mut k = 0;
      while k < len { vassert!(out[0].bytes[k] == ins[k], "C20.dis.bytes"); k += 1; }
    }
    core::mem::forget(out);
    }
    // layout B: NOP first, op last
    let mut b = [0u8; 4];
    b[0] = 0x00;
    let mut j = 0;
    while j < len { b[1 + j] = ins[j]; j += 1; }
    let out = disassemble(base, &b[..len + 1]);
    vassert!(out.len() == 2, "C20.dis.count_op_last");
    if out.len() == 2 {
      vassert!(out[0].address == base && out[0].length == 1, "C20.dis.nop_entry");
      vassert!(out[1].address == base.wrapping_add(1) && out[1].length == len, "C20.dis.last_entry");
    }
    core::mem::forget(out);
  }

  fn group(lo: u16, hi: u16, cb: bool) {
    let mut op = lo;
    while op < hi {
      if cb { tile_one(0xcb, Some(op as u8)); }
      else if op != 0xcb { tile_one(op as u8, None); }
      op += 1;
    }
    kani::cover!(true, "reached");
  }

  macro_rules! dis {
    ($name:ident, $lo:expr, $hi:expr, $cb:expr) => {
      #[kani::proof]
      #[kani::unwind(10)]
      #[kani::stub(<crate::decoder::ops::Op as std::fmt::Display>::fmt, stub_op_fmt)]
      fn $name() { group($lo, $hi, $cb); }
    };
  }
  dis!(c20_dis_00, 0x00, 0x08, false);
  dis!(c20_dis_08, 0x08, 0x10, false);
  dis!(c20_dis_10, 0x10, 0x18, false);
  dis!(c20_dis_18, 0x18, 0x20, false);
  dis!(c20_dis_20, 0x20, 0x28, false);
  dis!(c20_dis_28, 0x28, 0x30, false);
  dis!(c20_dis_30, 0x30, 0x38, false);
  dis!(c20_dis_38, 0x38, 0x40, false);
  dis!(c20_dis_40, 0x40, 0x48, false);
  dis!(c20_dis_48, 0x48, 0x50, false);
  dis!(c20_dis_50, 0x50, 0x58, false);
  dis!(c20_dis_58, 0x58, 0x60, false);
  dis!(c20_dis_60, 0x60, 0x68, false);
  dis!(c20_dis_68, 0x68, 0x70, false);
  dis!(c20_dis_70, 0x70, 0x78, false);
  dis!(c20_dis_78, 0x78, 0x80, false);
  dis!(c20_dis_80, 0x80, 0x88, false);
  dis!(c20_dis_88, 0x88, 0x90, false);
  dis!(c20_dis_90, 0x90, 0x98, false);
  dis!(c20_dis_98, 0x98, 0xa0, false);
  dis!(c20_dis_a0, 0xa0, 0xa8, false);
  dis!(c20_dis_a8, 0xa8, 0xb0, false);
  dis!(c20_dis_b0, 0xb0, 0xb8, false);
  dis!(c20_dis_b8, 0xb8, 0xc0, false);
  dis!(c20_dis_c0, 0xc0, 0xc8, false);
  dis!(c20_dis_c8, 0xc8, 0xd0, false);
  dis!(c20_dis_d0, 0xd0, 0xd8, false);
  dis!(c20_dis_d8, 0xd8, 0xe0, false);
  dis!(c20_dis_e0, 0xe0, 0xe8, false);
  dis!(c20_dis_e8, 0xe8, 0xf0, false);
  dis!(c20_dis_f0, 0xf0, 0xf8, false);
  dis!(c20_dis_f8, 0xf8, 0x100, false);
  dis!(c20_dis_cb00, 0x00, 0x08, true);
  dis!(c20_dis_cb08, 0x08, 0x10, true);
  dis!(c20_dis_cb10, 0x10, 0x18, true);
  dis!(c20_dis_cb18, 0x18, 0x20, true);
  dis!(c20_dis_cb20, 0x20, 0x28, true);
  dis!(c20_dis_cb28, 0x28, 0x30, true);
  dis!(c20_dis_cb30, 0x30, 0x38, true);
  dis!(c20_dis_cb38, 0x38, 0x40, true);
  dis!(c20_dis_cb40, 0x40, 0x48, true);
  dis!(c20_dis_cb48, 0x48, 0x50, true);
  dis!(c20_dis_cb50, 0x50, 0x58, true);
  dis!(c20_dis_cb58, 0x58, 0x60, true);
  dis!(c20_dis_cb60, 0x60, 0x68, true);
  dis!(c20_dis_cb68, 0x68, 0x70, true);
  dis!(c20_dis_cb70, 0x70, 0x78, true);
  dis!(c20_dis_cb78, 0x78, 0x80, true);
  dis!(c20_dis_cb80, 0x80, 0x88, true);
  dis!(c20_dis_cb88, 0x88, 0x90, true);
  dis!(c20_dis_cb90, 0x90, 0x98, true);
  dis!(c20_dis_cb98, 0x98, 0xa0, true);
  dis!(c20_dis_cba0, 0xa0, 0xa8, true);
  dis!(c20_dis_cba8, 0xa8, 0xb0, true);
  dis!(c20_dis_cbb0, 0xb0, 0xb8, true);
  dis!(c20_dis_cbb8, 0xb8, 0xc0, true);
  dis!(c20_dis_cbc0, 0xc0, 0xc8, true);
  dis!(c20_dis_cbc8, 0xc8, 0xd0, true);
  dis!(c20_dis_cbd0, 0xd0, 0xd8, true);
  dis!(c20_dis_cbd8, 0xd8, 0xe0, true);
  dis!(c20_dis_cbe0, 0xe0, 0xe8, true);
  dis!(c20_dis_cbe8, 0xe8, 0xf0, true);
  dis!(c20_dis_cbf0, 0xf0, 0xf8, true);
  dis!(c20_dis_cbf8, 0xf8, 0x100, true);
  // VERIF-END verif_c20
}
