#[cfg(all(kani, verif_c20))]
mod verif_c20 {
  use super::*;
  use crate::vassert;

  fn hex_digit(d: u8, upper: bool) -> u8 { if d < 10 { b'0' + d } else if upper { b'A' + d - 10 } else { b'a' + d - 10 } }

  /// Every 16-bit value written as 0x-prefixed hexadecimal (either digit case, optional zero padding) parses to itself.
  #[kani::proof]
  #[kani::unwind(10)]
  fn c20_addr_hex_all_values() {
    let v: u16 = kani::any();
    let upper: bool = kani::any();
    let pad: bool = kani::any();
    let mut buf = [0u8; 6];
    buf[0] = b'0'; buf[1] = b'x';
    let mut n = 2usize;
    let mut started = pad;
    let mut sh = 12i32;
    while sh >= 0 {
      let d = ((v >> sh) & 0xf) as u8;
      if d != 0 || started || sh == 0 { buf[n] = hex_digit(d, upper); n += 1; started = true; }
      sh -= 4;
    }
    let s = unsafe { core::str::from_utf8_unchecked(&buf[..n]) };
    vassert!(parse_address(s) == Some(v), "C20.addr.hex_exact");
    kani::cover!(v == 0xffff, "reached");
  }

  /// Every 16-bit value written in decimal parses to itself.
  #[kani::proof]
  #[kani::unwind(10)]
  fn c20_addr_dec_all_values() {
    let v: u16 = kani::any();
    let mut buf = [0u8; 5];
    let mut n = 0usize;
    let mut div = 10000u16;
    let mut started = false;
    while div > 0 {
      let d = ((v / div) % 10) as u8;
      if d != 0 || started || div == 1 { buf[n] = b'0' + d; n += 1; started = true; }
      div /= 10;
    }
    let s = unsafe { core::str::from_utf8_unchecked(&buf[..n]) };
    vassert!(parse_address(s) == Some(v), "C20.addr.dec_exact");
    kani::cover!(v == 65535, "reached");
  }

  /// Out-of-range numbers are rejected: 0x10000..0xFFFFF and 65536..999999.
  #[kani::proof]
  #[kani::unwind(10)]
  fn c20_addr_out_of_range() {
    let hex: bool = kani::any();
    if hex {
      let v: u32 = kani::any();
      kani::assume(v >= 0x10000 && v <= 0xfffff);
      let mut buf = [0u8; 7];
      buf[0] = b'0'; buf[1] = b'x';
      let mut i = 0;
      while i < 5 { buf[2 + i] = hex_digit(((v >> (16 - 4 * i)) & 0xf) as u8, false); i += 1; }
      let s = unsafe { core::str::from_utf8_unchecked(&buf[..7]) };
      vassert!(parse_address(s) == None, "C20.addr.hex_out_of_range_rejected");
    } else {
      let v: u32 = kani::any();
      kani::assume(v >= 65536 && v <= 999999);
      let mut buf = [0u8; 6];
      let mut n = 0usize;
      let mut div = 100000u32;
      let mut started = false;
      while div > 0 {
        let d = ((v / div) % 10) as u8;
        if d != 0 || started { buf[n] = b'0' + d; n += 1; started = true; }
        div /= 10;
      }
      let s = unsafe { core::str::from_utf8_unchecked(&buf[..n]) };
      vassert!(parse_address(s) == None, "C20.addr.dec_out_of_range_rejected");
    }
    kani::cover!(hex, "reached");
  }

  fn is_hex(b: u8) -> bool { (b >= b'0' && b <= b'9') || (b >= b'a' && b <= b'f') || (b >= b'A' && b <= b'F') }
  fn hexval(b: u8) -> u16 { if b <= b'9' { (b - b'0') as u16 } else if b >= b'a' { (b - b'a' + 10) as u16 } else { (b - b'A' + 10) as u16 } }

  /// "0x" followed by up to four arbitrary ASCII bytes: accepted exactly when those bytes are 1-4 hex digits.
  #[kani::proof]
  #[kani::unwind(10)]
  fn c20_addr_hex_malformed() {
    let tail: [u8; 4] = kani::any();
    let n: usize = kani::any();
    kani::assume(n <= 4);
    let mut buf = [0u8; 6];
    buf[0] = b'0'; buf[1] = b'x';
    let mut all_hex = n > 0;
    let mut val: u16 = 0;
    let mut i = 0;
    while i < 4 {
      if i < n {
        kani::assume(tail[i] < 0x80 && tail[i] > 0x20);
        buf[2 + i] = tail[i];
        if is_hex(tail[i]) { val = (val << 4) | hexval(tail[i]); } else { all_hex = false; }
      }
      i += 1;
    }
    let s = unsafe { core::str::from_utf8_unchecked(&buf[..2 + n]) };
    let r = parse_address(s);
    let signed = n > 0 && (tail[0] == b'+' || tail[0] == b'-'); // sign-prefixed forms: not settled by the statement
    if !signed {
      if all_hex { vassert!(r == Some(val), "C20.addr.hex_digits_accepted"); }
      else { vassert!(r == None, "C20.addr.malformed_hex_rejected"); }
    }
    kani::cover!(!all_hex && n == 4, "reached");
  }


  /// Malformed prefixes with concrete structure and symbolic digits: a doubled prefix, an upper-case X, a bare
  /// prefix, a missing zero.  (Concrete structure keeps prefix-handling loops concrete whatever the implementation.)
  #[kani::proof]
  #[kani::unwind(10)]
  fn c20_addr_malformed_prefixes() {
    let d1: u8 = kani::any(); let d2: u8 = kani::any();
    kani::assume(is_hex(d1) && is_hex(d2));
    let a = [b'0', b'x', b'0', b'x', d1, d2];
    vassert!(parse_address(unsafe { core::str::from_utf8_unchecked(&a) }) == None, "C20.addr.doubled_prefix_rejected");
    let b = [b'0', b'X', d1, d2];
    vassert!(parse_address(unsafe { core::str::from_utf8_unchecked(&b) }) == None, "C20.addr.uppercase_x_rejected");
    let c = [b'0', b'x'];
    vassert!(parse_address(unsafe { core::str::from_utf8_unchecked(&c) }) == None, "C20.addr.bare_prefix_rejected");
    let d = [b'x', d1, d2];
    vassert!(parse_address(unsafe { core::str::from_utf8_unchecked(&d) }) == None, "C20.addr.missing_zero_rejected");
    let e = [b'0', b'x', d1, d2, b'0', b'x'];
    vassert!(parse_address(unsafe { core::str::from_utf8_unchecked(&e) }) == None, "C20.addr.trailing_prefix_rejected");
    kani::cover!(true, "reached");
  }

  /// One fully concrete doubled-prefix token, in its own harness.  This is a single input, not a range: it exists only so
  /// that the check still answers (rather than timing out) when an implementation strips the prefix with a substring
  /// searcher, whose loops over a partly symbolic token did not finish within the harness timeout.  The symbolic form
  /// of the same obligation is `C20.addr.doubled_prefix_rejected` in c20_addr_malformed_prefixes.
  #[kani::proof]
  #[kani::unwind(10)]
  fn c20_addr_doubled_prefix_concrete() {
    let a = [b'0', b'x', b'0', b'x', b'1', b'2'];
    vassert!(parse_address(unsafe { core::str::from_utf8_unchecked(&a) }) == None, "C20.addr.doubled_prefix_rejected_concrete");
    kani::cover!(true, "reached");
  }

  /// Arbitrary printable-ASCII tokens up to 5 bytes: total (no panic), and a decimal reading only for digit strings.
  #[kani::proof]
  #[kani::unwind(10)]
  fn c20_addr_ascii_total() {
    let raw: [u8; 5] = kani::any();
    let n: usize = kani::any();
    kani::assume(n <= 5);
    let mut i = 0;
    let mut all_digits = n > 0;
    while i < 5 { kani::assume(raw[i] < 0x80); if i < n && !(raw[i] >= b'0' && raw[i] <= b'9') { all_digits = false; } i += 1; }
    let s = unsafe { core::str::from_utf8_unchecked(&raw[..n]) };
    let r = parse_address(s);
    let prefixed = n >= 2 && raw[0] == b'0' && raw[1] == b'x';
    let has_ws_or_sign = { let mut w = false; let mut j = 0; while j < 5 { if j < n && (raw[j] <= 0x20 || raw[j] == b'+' || raw[j] == b'-') { w = true; } j += 1; } w };
    if !prefixed && !has_ws_or_sign && !all_digits { vassert!(r == None, "C20.addr.non_numeric_rejected"); }
    kani::cover!(r.is_some(), "reached");
  }

  #[kani::proof]
  #[kani::unwind(10)]
  fn c20_witness_must_fail() {
    let raw: [u8; 3] = kani::any();
    kani::assume(raw[0] < 0x80 && raw[1] < 0x80 && raw[2] < 0x80);
    let s = unsafe { core::str::from_utf8_unchecked(&raw[..3]) };
    let _ = parse_address(s);
    assert!(false, "C20.witness");
  }
  // VERIF-END verif_c20
}

#[cfg(all(kani, verif_c20))]
mod verif_c20_cmd {
  use super::*;
  use crate::vassert;

  fn put(buf: &mut [u8; 24], n: &mut usize, b: u8) { if *n < 24 { buf[*n] = b; *n += 1; } }
  fn ws(buf: &mut [u8; 24], n: &mut usize, kind: u8) {
    match kind & 3 { 0 => {}, 1 => put(buf, n, b' '), 2 => put(buf, n, b'\t'), _ => { put(buf, n, b' '); put(buf, n, b' '); } }
  }
  fn word(buf: &mut [u8; 24], n: &mut usize, w: &[u8], casebits: u8) {
    let mut i = 0;
    while i < w.len() {
      let up = (casebits >> (i & 7)) & 1 == 1;
      put(buf, n, if up { w[i] - 32 } else { w[i] });
      i += 1;
    }
  }

  /// Argument-less commands: any letter case, any whitespace layout before/after.
  fn plain(wsel: u8) {
    let (w, want): (&[u8], Command) = match wsel {
      0 => (b"c", Command::Continue), 1 => (b"continue", Command::Continue),
      2 => (b"s", Command::Step), _ => (b"step", Command::Step),
    };
    let mut buf = [0u8; 24];
    let mut n = 0usize;
    ws(&mut buf, &mut n, kani::any());
    word(&mut buf, &mut n, w, kani::any());
    ws(&mut buf, &mut n, kani::any());
    let s = unsafe { core::str::from_utf8_unchecked(&buf[..n]) };
    vassert!(parse_command(s) == Some(want), "C20.cmd.plain");
    kani::cover!(true, "reached");
  }
  #[cfg(verif_thorough)]
  #[kani::proof]
  #[kani::unwind(26)]
  fn c20_cmd_c() { plain(0); }
  #[cfg(verif_thorough)]
  #[kani::proof]
  #[kani::unwind(26)]
  fn c20_cmd_continue() { plain(1); }
  #[cfg(verif_thorough)]
  #[kani::proof]
  #[kani::unwind(26)]
  fn c20_cmd_step() { plain(3); }

  /// Commands with an address argument (hex, up to 4 digits).
  fn with_addr(wsel: u8) {
    let w: &[u8] = match wsel { 0 => b"break", 1 => b"p", _ => b"print" };
    let v: u16 = kani::any();
    let mut buf = [0u8; 24];
    let mut n = 0usize;
    ws(&mut buf, &mut n, kani::any());
    word(&mut buf, &mut n, w, kani::any());
    let sep: u8 = kani::any();
    kani::assume(sep & 3 != 0);
    ws(&mut buf, &mut n, sep);
    put(&mut buf, &mut n, b'0'); put(&mut buf, &mut n, b'x');
    let mut sh = 12i32;
    while sh >= 0 { let d = ((v >> sh) & 0xf) as u8; put(&mut buf, &mut n, if d < 10 { b'0' + d } else { b'a' + d - 10 }); sh -= 4; }
    ws(&mut buf, &mut n, kani::any());
    let s = unsafe { core::str::from_utf8_unchecked(&buf[..n]) };
    let want = if wsel == 0 { Command::BreakSet(v) } else { Command::ReadMemory(v) };
    vassert!(parse_command(s) == Some(want), "C20.cmd.with_address");
    kani::cover!(true, "reached");
  }
  #[cfg(verif_thorough)]
  #[kani::proof]
  #[kani::unwind(26)]
  fn c20_cmd_break_addr() { with_addr(0); }
  #[cfg(verif_thorough)]
  #[kani::proof]
  #[kani::unwind(26)]
  fn c20_cmd_p_addr() { with_addr(1); }

  /// Totality on short arbitrary ASCII lines.
  #[cfg(verif_thorough)]
  #[kani::proof]
  #[kani::unwind(26)]
  fn c20_cmd_ascii3_total() {
    let raw: [u8; 3] = kani::any();
    let n: usize = kani::any();
    kani::assume(n <= 3 && raw[0] < 0x80 && raw[1] < 0x80 && raw[2] < 0x80);
    let s = unsafe { core::str::from_utf8_unchecked(&raw[..n]) };
    let r = parse_command(s);
    if n == 0 { vassert!(r == None, "C20.cmd.empty_line"); }
    kani::cover!(r.is_some(), "reached");
  }
  // VERIF-END verif_c20_cmd
}
