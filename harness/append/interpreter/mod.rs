#[cfg(all(kani, verif_cpu_interp))]
mod verif_interp {
  use super::*;
  use crate::vassert;
  use crate::verif::{cpuh, sm83ref};

  /// Stack / control-transfer instructions: their SP and bus obligations belong to C06, all other data obligations to C05.
  fn is_stack_op(op: u8) -> bool {
    let x = op >> 6; let z = op & 7; let y = (op >> 3) & 7;
    x == 3 && (z == 0 && y < 4 || z == 1 || z == 4 || z == 5 || z == 7)
  }

  /// One opcode: real decoder + interpreter against the SM83 reference, every obligation tagged with the opcode.
  macro_rules! check_op {
    ($op:expr, $cb:expr, $t:literal) => {{
      let r0 = cpuh::any_regs();
      let b1: u8 = kani::any();
      let b2: u8 = kani::any();
      let rd: [u8; 4] = kani::any();
      let c0: u32 = (kani::any::<u8>() & 0x3f) as u32; // machine cycles already pending (e.g. 5 after a dispatch)
      let cbv: Option<u8> = $cb;
      let code = match cbv { Some(second) => [$op, second, b2], None => [$op, b1, b2] };
      let o = sm83ref::step(code, r0, rd);
      #[cfg(verif_realizable)]
      kani::assume(cpuh::realizable(&o, r0.pc));
      let run = cpuh::run_interp(code, &r0, c0, rd, &o);
      if run.replayable {
        vassert!(run.returned, concat!("C06.executes@", $t));
        let g = &run.regs;
        let (af, bc, de, hl, sp, ip, cyc) = (g.af, g.bc, g.de, g.hl, g.sp, g.ip, g.cycles);
        let stack = is_stack_op($op);
        let st = match run.status { 1 => sm83ref::ST_STOP, 2 => sm83ref::ST_HALT, 3 => sm83ref::ST_DI, 4 => sm83ref::ST_EI, 5 => sm83ref::ST_RETI, _ => sm83ref::ST_NORMAL };
        crate::vchecks!(
          (af >> 8 == o.r.a as u32, concat!("C05.a@", $t)),
          (af & 0xff == o.r.f as u32, concat!("C05.f@", $t)),
          (bc == (((o.r.b as u32) << 8) | o.r.c as u32), concat!("C05.bc@", $t)),
          (de == (((o.r.d as u32) << 8) | o.r.e as u32), concat!("C05.de@", $t)),
          (hl == (((o.r.h as u32) << 8) | o.r.l as u32), concat!("C05.hl@", $t)),
          (stack || sp == o.r.sp as u32, concat!("C05.sp@", $t)),
          (stack || run.bus_ok, concat!("C05.bus@", $t)),
          (!stack || sp == o.r.sp as u32, concat!("C06.sp@", $t)),
          (!stack || run.bus_ok, concat!("C06.stack_bus@", $t)),
          (ip == o.r.pc as u32, concat!("C06.pc@", $t)),
          (cyc == c0 + o.cycles, concat!("C06.cycles@", $t)),
          (run.brk == o.block_end, concat!("C06.block_end@", $t)),
          (st == o.status, concat!("C06.status@", $t)),
        );
      } else {
        // native replay only: keep the kani::any() sequence aligned for the following opcodes of this harness
        let _unused_selector: u8 = kani::any();
      }
    }};
  }
  /// The eleven undefined opcodes are never executed as something else: execution does not return.
  macro_rules! undef {
    ($name:ident, $op:expr) => {
      #[kani::proof]
      #[kani::unwind(8)]
      #[kani::should_panic]
      #[kani::stub(crate::mem::memory_read_byte, cpuh::rec_read)]
      #[kani::stub(crate::mem::memory_write_byte, cpuh::rec_write)]
      #[kani::stub(crate::mem::get_executable_memory_slice, cpuh::stub_fetch)]
      fn $name() {
        let r0 = cpuh::any_regs();
        let code = [$op, kani::any(), kani::any()];
        cpuh::bus_reset(kani::any(), code);
        let mut regs = cpuh::to_registers(&r0, 0);
        let _ = run_next_op(&mut regs, 16usize as *mut MemoryAreas);
      }
    };
  }

  #[kani::proof]
  #[kani::unwind(8)]
  #[kani::stub(crate::mem::memory_read_byte, cpuh::rec_read)]
  #[kani::stub(crate::mem::memory_write_byte, cpuh::rec_write)]
  #[kani::stub(crate::mem::get_executable_memory_slice, cpuh::stub_fetch)]
  fn i_00() {
    check_op!(0x00u8, None, "00");
    check_op!(0x01u8, None, "01");
    check_op!(0x02u8, None, "02");
    check_op!(0x03u8, None, "03");
    check_op!(0x04u8, None, "04");
    check_op!(0x05u8, None, "05");
    check_op!(0x06u8, None, "06");
    check_op!(0x07u8, None, "07");
    kani::cover!(true, "reached");
  }
  #[kani::proof]
  #[kani::unwind(8)]
  #[kani::stub(crate::mem::memory_read_byte, cpuh::rec_read)]
  #[kani::stub(crate::mem::memory_write_byte, cpuh::rec_write)]
  #[kani::stub(crate::mem::get_executable_memory_slice, cpuh::stub_fetch)]
  fn i_08() {
    check_op!(0x08u8, None, "08");
    check_op!(0x09u8, None, "09");
    check_op!(0x0au8, None, "0a");
    check_op!(0x0bu8, None, "0b");
    check_op!(0x0cu8, None, "0c");
    check_op!(0x0du8, None, "0d");
    check_op!(0x0eu8, None, "0e");
    check_op!(0x0fu8, None, "0f");
    kani::cover!(true, "reached");
  }
  #[kani::proof]
  #[kani::unwind(8)]
  #[kani::stub(crate::mem::memory_read_byte, cpuh::rec_read)]
  #[kani::stub(crate::mem::memory_write_byte, cpuh::rec_write)]
  #[kani::stub(crate::mem::get_executable_memory_slice, cpuh::stub_fetch)]
  fn i_10() {
    check_op!(0x10u8, None, "10");
    check_op!(0x11u8, None, "11");
    check_op!(0x12u8, None, "12");
    check_op!(0x13u8, None, "13");
    check_op!(0x14u8, None, "14");
    check_op!(0x15u8, None, "15");
    check_op!(0x16u8, None, "16");
    check_op!(0x17u8, None, "17");
    kani::cover!(true, "reached");
  }
  #[kani::proof]
  #[kani::unwind(8)]
  #[kani::stub(crate::mem::memory_read_byte, cpuh::rec_read)]
  #[kani::stub(crate::mem::memory_write_byte, cpuh::rec_write)]
  #[kani::stub(crate::mem::get_executable_memory_slice, cpuh::stub_fetch)]
  fn i_18() {
    check_op!(0x18u8, None, "18");
    check_op!(0x19u8, None, "19");
    check_op!(0x1au8, None, "1a");
    check_op!(0x1bu8, None, "1b");
    check_op!(0x1cu8, None, "1c");
    check_op!(0x1du8, None, "1d");
    check_op!(0x1eu8, None, "1e");
    check_op!(0x1fu8, None, "1f");
    kani::cover!(true, "reached");
  }
  #[kani::proof]
  #[kani::unwind(8)]
  #[kani::stub(crate::mem::memory_read_byte, cpuh::rec_read)]
  #[kani::stub(crate::mem::memory_write_byte, cpuh::rec_write)]
  #[kani::stub(crate::mem::get_executable_memory_slice, cpuh::stub_fetch)]
  fn i_20() {
    check_op!(0x20u8, None, "20");
    check_op!(0x21u8, None, "21");
    check_op!(0x22u8, None, "22");
    check_op!(0x23u8, None, "23");
    check_op!(0x24u8, None, "24");
    check_op!(0x25u8, None, "25");
    check_op!(0x26u8, None, "26");
    check_op!(0x27u8, None, "27");
    kani::cover!(true, "reached");
  }
  #[kani::proof]
  #[kani::unwind(8)]
  #[kani::stub(crate::mem::memory_read_byte, cpuh::rec_read)]
  #[kani::stub(crate::mem::memory_write_byte, cpuh::rec_write)]
  #[kani::stub(crate::mem::get_executable_memory_slice, cpuh::stub_fetch)]
  fn i_28() {
    check_op!(0x28u8, None, "28");
    check_op!(0x29u8, None, "29");
    check_op!(0x2au8, None, "2a");
    check_op!(0x2bu8, None, "2b");
    check_op!(0x2cu8, None, "2c");
    check_op!(0x2du8, None, "2d");
    check_op!(0x2eu8, None, "2e");
    check_op!(0x2fu8, None, "2f");
    kani::cover!(true, "reached");
  }
  #[kani::proof]
  #[kani::unwind(8)]
  #[kani::stub(crate::mem::memory_read_byte, cpuh::rec_read)]
  #[kani::stub(crate::mem::memory_write_byte, cpuh::rec_write)]
  #[kani::stub(crate::mem::get_executable_memory_slice, cpuh::stub_fetch)]
  fn i_30() {
    check_op!(0x30u8, None, "30");
    check_op!(0x31u8, None, "31");
    check_op!(0x32u8, None, "32");
    check_op!(0x33u8, None, "33");
    check_op!(0x34u8, None, "34");
    check_op!(0x35u8, None, "35");
    check_op!(0x36u8, None, "36");
    check_op!(0x37u8, None, "37");
    kani::cover!(true, "reached");
  }
  #[kani::proof]
  #[kani::unwind(8)]
  #[kani::stub(crate::mem::memory_read_byte, cpuh::rec_read)]
  #[kani::stub(crate::mem::memory_write_byte, cpuh::rec_write)]
  #[kani::stub(crate::mem::get_executable_memory_slice, cpuh::stub_fetch)]
  fn i_38() {
    check_op!(0x38u8, None, "38");
    check_op!(0x39u8, None, "39");
    check_op!(0x3au8, None, "3a");
    check_op!(0x3bu8, None, "3b");
    check_op!(0x3cu8, None, "3c");
    check_op!(0x3du8, None, "3d");
    check_op!(0x3eu8, None, "3e");
    check_op!(0x3fu8, None, "3f");
    kani::cover!(true, "reached");
  }
  #[kani::proof]
  #[kani::unwind(8)]
  #[kani::stub(crate::mem::memory_read_byte, cpuh::rec_read)]
  #[kani::stub(crate::mem::memory_write_byte, cpuh::rec_write)]
  #[kani::stub(crate::mem::get_executable_memory_slice, cpuh::stub_fetch)]
  fn i_40() {
    check_op!(0x40u8, None, "40");
    check_op!(0x41u8, None, "41");
    check_op!(0x42u8, None, "42");
    check_op!(0x43u8, None, "43");
    check_op!(0x44u8, None, "44");
    check_op!(0x45u8, None, "45");
    check_op!(0x46u8, None, "46");
    check_op!(0x47u8, None, "47");
    kani::cover!(true, "reached");
  }
  #[kani::proof]
  #[kani::unwind(8)]
  #[kani::stub(crate::mem::memory_read_byte, cpuh::rec_read)]
  #[kani::stub(crate::mem::memory_write_byte, cpuh::rec_write)]
  #[kani::stub(crate::mem::get_executable_memory_slice, cpuh::stub_fetch)]
  fn i_48() {
    check_op!(0x48u8, None, "48");
    check_op!(0x49u8, None, "49");
    check_op!(0x4au8, None, "4a");
    check_op!(0x4bu8, None, "4b");
    check_op!(0x4cu8, None, "4c");
    check_op!(0x4du8, None, "4d");
    check_op!(0x4eu8, None, "4e");
    check_op!(0x4fu8, None, "4f");
    kani::cover!(true, "reached");
  }
  #[kani::proof]
  #[kani::unwind(8)]
  #[kani::stub(crate::mem::memory_read_byte, cpuh::rec_read)]
  #[kani::stub(crate::mem::memory_write_byte, cpuh::rec_write)]
  #[kani::stub(crate::mem::get_executable_memory_slice, cpuh::stub_fetch)]
  fn i_50() {
    check_op!(0x50u8, None, "50");
    check_op!(0x51u8, None, "51");
    check_op!(0x52u8, None, "52");
    check_op!(0x53u8, None, "53");
    check_op!(0x54u8, None, "54");
    check_op!(0x55u8, None, "55");
    check_op!(0x56u8, None, "56");
    check_op!(0x57u8, None, "57");
    kani::cover!(true, "reached");
  }
  #[kani::proof]
  #[kani::unwind(8)]
  #[kani::stub(crate::mem::memory_read_byte, cpuh::rec_read)]
  #[kani::stub(crate::mem::memory_write_byte, cpuh::rec_write)]
  #[kani::stub(crate::mem::get_executable_memory_slice, cpuh::stub_fetch)]
  fn i_58() {
    check_op!(0x58u8, None, "58");
    check_op!(0x59u8, None, "59");
    check_op!(0x5au8, None, "5a");
    check_op!(0x5bu8, None, "5b");
    check_op!(0x5cu8, None, "5c");
    check_op!(0x5du8, None, "5d");
    check_op!(0x5eu8, None, "5e");
    check_op!(0x5fu8, None, "5f");
    kani::cover!(true, "reached");
  }
  #[kani::proof]
  #[kani::unwind(8)]
  #[kani::stub(crate::mem::memory_read_byte, cpuh::rec_read)]
  #[kani::stub(crate::mem::memory_write_byte, cpuh::rec_write)]
  #[kani::stub(crate::mem::get_executable_memory_slice, cpuh::stub_fetch)]
  fn i_60() {
    check_op!(0x60u8, None, "60");
    check_op!(0x61u8, None, "61");
    check_op!(0x62u8, None, "62");
    check_op!(0x63u8, None, "63");
    check_op!(0x64u8, None, "64");
    check_op!(0x65u8, None, "65");
    check_op!(0x66u8, None, "66");
    check_op!(0x67u8, None, "67");
    kani::cover!(true, "reached");
  }
  #[kani::proof]
  #[kani::unwind(8)]
  #[kani::stub(crate::mem::memory_read_byte, cpuh::rec_read)]
  #[kani::stub(crate::mem::memory_write_byte, cpuh::rec_write)]
  #[kani::stub(crate::mem::get_executable_memory_slice, cpuh::stub_fetch)]
  fn i_68() {
    check_op!(0x68u8, None, "68");
    check_op!(0x69u8, None, "69");
    check_op!(0x6au8, None, "6a");
    check_op!(0x6bu8, None, "6b");
    check_op!(0x6cu8, None, "6c");
    check_op!(0x6du8, None, "6d");
    check_op!(0x6eu8, None, "6e");
    check_op!(0x6fu8, None, "6f");
    kani::cover!(true, "reached");
  }
  #[kani::proof]
  #[kani::unwind(8)]
  #[kani::stub(crate::mem::memory_read_byte, cpuh::rec_read)]
  #[kani::stub(crate::mem::memory_write_byte, cpuh::rec_write)]
  #[kani::stub(crate::mem::get_executable_memory_slice, cpuh::stub_fetch)]
  fn i_70() {
    check_op!(0x70u8, None, "70");
    check_op!(0x71u8, None, "71");
    check_op!(0x72u8, None, "72");
    check_op!(0x73u8, None, "73");
    check_op!(0x74u8, None, "74");
    check_op!(0x75u8, None, "75");
    check_op!(0x76u8, None, "76");
    check_op!(0x77u8, None, "77");
    kani::cover!(true, "reached");
  }
  #[kani::proof]
  #[kani::unwind(8)]
  #[kani::stub(crate::mem::memory_read_byte, cpuh::rec_read)]
  #[kani::stub(crate::mem::memory_write_byte, cpuh::rec_write)]
  #[kani::stub(crate::mem::get_executable_memory_slice, cpuh::stub_fetch)]
  fn i_78() {
    check_op!(0x78u8, None, "78");
    check_op!(0x79u8, None, "79");
    check_op!(0x7au8, None, "7a");
    check_op!(0x7bu8, None, "7b");
    check_op!(0x7cu8, None, "7c");
    check_op!(0x7du8, None, "7d");
    check_op!(0x7eu8, None, "7e");
    check_op!(0x7fu8, None, "7f");
    kani::cover!(true, "reached");
  }
  #[kani::proof]
  #[kani::unwind(8)]
  #[kani::stub(crate::mem::memory_read_byte, cpuh::rec_read)]
  #[kani::stub(crate::mem::memory_write_byte, cpuh::rec_write)]
  #[kani::stub(crate::mem::get_executable_memory_slice, cpuh::stub_fetch)]
  fn i_80() {
    check_op!(0x80u8, None, "80");
    check_op!(0x81u8, None, "81");
    check_op!(0x82u8, None, "82");
    check_op!(0x83u8, None, "83");
    check_op!(0x84u8, None, "84");
    check_op!(0x85u8, None, "85");
    check_op!(0x86u8, None, "86");
    check_op!(0x87u8, None, "87");
    kani::cover!(true, "reached");
  }
  #[kani::proof]
  #[kani::unwind(8)]
  #[kani::stub(crate::mem::memory_read_byte, cpuh::rec_read)]
  #[kani::stub(crate::mem::memory_write_byte, cpuh::rec_write)]
  #[kani::stub(crate::mem::get_executable_memory_slice, cpuh::stub_fetch)]
  fn i_88() {
    check_op!(0x88u8, None, "88");
    check_op!(0x89u8, None, "89");
    check_op!(0x8au8, None, "8a");
    check_op!(0x8bu8, None, "8b");
    check_op!(0x8cu8, None, "8c");
    check_op!(0x8du8, None, "8d");
    check_op!(0x8eu8, None, "8e");
    check_op!(0x8fu8, None, "8f");
    kani::cover!(true, "reached");
  }
  #[kani::proof]
  #[kani::unwind(8)]
  #[kani::stub(crate::mem::memory_read_byte, cpuh::rec_read)]
  #[kani::stub(crate::mem::memory_write_byte, cpuh::rec_write)]
  #[kani::stub(crate::mem::get_executable_memory_slice, cpuh::stub_fetch)]
  fn i_90() {
    check_op!(0x90u8, None, "90");
    check_op!(0x91u8, None, "91");
    check_op!(0x92u8, None, "92");
    check_op!(0x93u8, None, "93");
    check_op!(0x94u8, None, "94");
    check_op!(0x95u8, None, "95");
    check_op!(0x96u8, None, "96");
    check_op!(0x97u8, None, "97");
    kani::cover!(true, "reached");
  }
  #[kani::proof]
  #[kani::unwind(8)]
  #[kani::stub(crate::mem::memory_read_byte, cpuh::rec_read)]
  #[kani::stub(crate::mem::memory_write_byte, cpuh::rec_write)]
  #[kani::stub(crate::mem::get_executable_memory_slice, cpuh::stub_fetch)]
  fn i_98() {
    check_op!(0x98u8, None, "98");
    check_op!(0x99u8, None, "99");
    check_op!(0x9au8, None, "9a");
    check_op!(0x9bu8, None, "9b");
    check_op!(0x9cu8, None, "9c");
    check_op!(0x9du8, None, "9d");
    check_op!(0x9eu8, None, "9e");
    check_op!(0x9fu8, None, "9f");
    kani::cover!(true, "reached");
  }
  #[kani::proof]
  #[kani::unwind(8)]
  #[kani::stub(crate::mem::memory_read_byte, cpuh::rec_read)]
  #[kani::stub(crate::mem::memory_write_byte, cpuh::rec_write)]
  #[kani::stub(crate::mem::get_executable_memory_slice, cpuh::stub_fetch)]
  fn i_a0() {
    check_op!(0xa0u8, None, "a0");
    check_op!(0xa1u8, None, "a1");
    check_op!(0xa2u8, None, "a2");
    check_op!(0xa3u8, None, "a3");
    check_op!(0xa4u8, None, "a4");
    check_op!(0xa5u8, None, "a5");
    check_op!(0xa6u8, None, "a6");
    check_op!(0xa7u8, None, "a7");
    kani::cover!(true, "reached");
  }
  #[kani::proof]
  #[kani::unwind(8)]
  #[kani::stub(crate::mem::memory_read_byte, cpuh::rec_read)]
  #[kani::stub(crate::mem::memory_write_byte, cpuh::rec_write)]
  #[kani::stub(crate::mem::get_executable_memory_slice, cpuh::stub_fetch)]
  fn i_a8() {
    check_op!(0xa8u8, None, "a8");
    check_op!(0xa9u8, None, "a9");
    check_op!(0xaau8, None, "aa");
    check_op!(0xabu8, None, "ab");
    check_op!(0xacu8, None, "ac");
    check_op!(0xadu8, None, "ad");
    check_op!(0xaeu8, None, "ae");
    check_op!(0xafu8, None, "af");
    kani::cover!(true, "reached");
  }
  #[kani::proof]
  #[kani::unwind(8)]
  #[kani::stub(crate::mem::memory_read_byte, cpuh::rec_read)]
  #[kani::stub(crate::mem::memory_write_byte, cpuh::rec_write)]
  #[kani::stub(crate::mem::get_executable_memory_slice, cpuh::stub_fetch)]
  fn i_b0() {
    check_op!(0xb0u8, None, "b0");
    check_op!(0xb1u8, None, "b1");
    check_op!(0xb2u8, None, "b2");
    check_op!(0xb3u8, None, "b3");
    check_op!(0xb4u8, None, "b4");
    check_op!(0xb5u8, None, "b5");
    check_op!(0xb6u8, None, "b6");
    check_op!(0xb7u8, None, "b7");
    kani::cover!(true, "reached");
  }
  #[kani::proof]
  #[kani::unwind(8)]
  #[kani::stub(crate::mem::memory_read_byte, cpuh::rec_read)]
  #[kani::stub(crate::mem::memory_write_byte, cpuh::rec_write)]
  #[kani::stub(crate::mem::get_executable_memory_slice, cpuh::stub_fetch)]
  fn i_b8() {
    check_op!(0xb8u8, None, "b8");
    check_op!(0xb9u8, None, "b9");
    check_op!(0xbau8, None, "ba");
    check_op!(0xbbu8, None, "bb");
    check_op!(0xbcu8, None, "bc");
    check_op!(0xbdu8, None, "bd");
    check_op!(0xbeu8, None, "be");
    check_op!(0xbfu8, None, "bf");
    kani::cover!(true, "reached");
  }
  #[kani::proof]
  #[kani::unwind(8)]
  #[kani::stub(crate::mem::memory_read_byte, cpuh::rec_read)]
  #[kani::stub(crate::mem::memory_write_byte, cpuh::rec_write)]
  #[kani::stub(crate::mem::get_executable_memory_slice, cpuh::stub_fetch)]
  fn i_c0() {
    check_op!(0xc0u8, None, "c0");
    check_op!(0xc1u8, None, "c1");
    check_op!(0xc2u8, None, "c2");
    check_op!(0xc3u8, None, "c3");
    check_op!(0xc4u8, None, "c4");
    check_op!(0xc5u8, None, "c5");
    check_op!(0xc6u8, None, "c6");
    check_op!(0xc7u8, None, "c7");
    kani::cover!(true, "reached");
  }
  #[kani::proof]
  #[kani::unwind(8)]
  #[kani::stub(crate::mem::memory_read_byte, cpuh::rec_read)]
  #[kani::stub(crate::mem::memory_write_byte, cpuh::rec_write)]
  #[kani::stub(crate::mem::get_executable_memory_slice, cpuh::stub_fetch)]
  fn i_c8() {
    check_op!(0xc8u8, None, "c8");
    check_op!(0xc9u8, None, "c9");
    check_op!(0xcau8, None, "ca");
    check_op!(0xccu8, None, "cc");
    check_op!(0xcdu8, None, "cd");
    check_op!(0xceu8, None, "ce");
    check_op!(0xcfu8, None, "cf");
    kani::cover!(true, "reached");
  }
  #[kani::proof]
  #[kani::unwind(8)]
  #[kani::stub(crate::mem::memory_read_byte, cpuh::rec_read)]
  #[kani::stub(crate::mem::memory_write_byte, cpuh::rec_write)]
  #[kani::stub(crate::mem::get_executable_memory_slice, cpuh::stub_fetch)]
  fn i_d0() {
    check_op!(0xd0u8, None, "d0");
    check_op!(0xd1u8, None, "d1");
    check_op!(0xd2u8, None, "d2");
    check_op!(0xd4u8, None, "d4");
    check_op!(0xd5u8, None, "d5");
    check_op!(0xd6u8, None, "d6");
    check_op!(0xd7u8, None, "d7");
    kani::cover!(true, "reached");
  }
  #[kani::proof]
  #[kani::unwind(8)]
  #[kani::stub(crate::mem::memory_read_byte, cpuh::rec_read)]
  #[kani::stub(crate::mem::memory_write_byte, cpuh::rec_write)]
  #[kani::stub(crate::mem::get_executable_memory_slice, cpuh::stub_fetch)]
  fn i_d8() {
    check_op!(0xd8u8, None, "d8");
    check_op!(0xd9u8, None, "d9");
    check_op!(0xdau8, None, "da");
    check_op!(0xdcu8, None, "dc");
    check_op!(0xdeu8, None, "de");
    check_op!(0xdfu8, None, "df");
    kani::cover!(true, "reached");
  }
  #[kani::proof]
  #[kani::unwind(8)]
  #[kani::stub(crate::mem::memory_read_byte, cpuh::rec_read)]
  #[kani::stub(crate::mem::memory_write_byte, cpuh::rec_write)]
  #[kani::stub(crate::mem::get_executable_memory_slice, cpuh::stub_fetch)]
  fn i_e0() {
    check_op!(0xe0u8, None, "e0");
    check_op!(0xe1u8, None, "e1");
    check_op!(0xe2u8, None, "e2");
    check_op!(0xe5u8, None, "e5");
    check_op!(0xe6u8, None, "e6");
    check_op!(0xe7u8, None, "e7");
    kani::cover!(true, "reached");
  }
  #[kani::proof]
  #[kani::unwind(8)]
  #[kani::stub(crate::mem::memory_read_byte, cpuh::rec_read)]
  #[kani::stub(crate::mem::memory_write_byte, cpuh::rec_write)]
  #[kani::stub(crate::mem::get_executable_memory_slice, cpuh::stub_fetch)]
  fn i_e8() {
    check_op!(0xe8u8, None, "e8");
    check_op!(0xe9u8, None, "e9");
    check_op!(0xeau8, None, "ea");
    check_op!(0xeeu8, None, "ee");
    check_op!(0xefu8, None, "ef");
    kani::cover!(true, "reached");
  }
  #[kani::proof]
  #[kani::unwind(8)]
  #[kani::stub(crate::mem::memory_read_byte, cpuh::rec_read)]
  #[kani::stub(crate::mem::memory_write_byte, cpuh::rec_write)]
  #[kani::stub(crate::mem::get_executable_memory_slice, cpuh::stub_fetch)]
  fn i_f0() {
    check_op!(0xf0u8, None, "f0");
    check_op!(0xf1u8, None, "f1");
    check_op!(0xf2u8, None, "f2");
    check_op!(0xf3u8, None, "f3");
    check_op!(0xf5u8, None, "f5");
    check_op!(0xf6u8, None, "f6");
    check_op!(0xf7u8, None, "f7");
    kani::cover!(true, "reached");
  }
  #[kani::proof]
  #[kani::unwind(8)]
  #[kani::stub(crate::mem::memory_read_byte, cpuh::rec_read)]
  #[kani::stub(crate::mem::memory_write_byte, cpuh::rec_write)]
  #[kani::stub(crate::mem::get_executable_memory_slice, cpuh::stub_fetch)]
  fn i_f8() {
    check_op!(0xf8u8, None, "f8");
    check_op!(0xf9u8, None, "f9");
    check_op!(0xfau8, None, "fa");
    check_op!(0xfbu8, None, "fb");
    check_op!(0xfeu8, None, "fe");
    check_op!(0xffu8, None, "ff");
    kani::cover!(true, "reached");
  }
  #[kani::proof]
  #[kani::unwind(8)]
  #[kani::stub(crate::mem::memory_read_byte, cpuh::rec_read)]
  #[kani::stub(crate::mem::memory_write_byte, cpuh::rec_write)]
  #[kani::stub(crate::mem::get_executable_memory_slice, cpuh::stub_fetch)]
  fn i_cb00() {
    check_op!(0xcbu8, Some(0x00u8), "cb00");
    check_op!(0xcbu8, Some(0x01u8), "cb01");
    check_op!(0xcbu8, Some(0x02u8), "cb02");
    check_op!(0xcbu8, Some(0x03u8), "cb03");
    check_op!(0xcbu8, Some(0x04u8), "cb04");
    check_op!(0xcbu8, Some(0x05u8), "cb05");
    check_op!(0xcbu8, Some(0x06u8), "cb06");
    check_op!(0xcbu8, Some(0x07u8), "cb07");
    kani::cover!(true, "reached");
  }
  #[kani::proof]
  #[kani::unwind(8)]
  #[kani::stub(crate::mem::memory_read_byte, cpuh::rec_read)]
  #[kani::stub(crate::mem::memory_write_byte, cpuh::rec_write)]
  #[kani::stub(crate::mem::get_executable_memory_slice, cpuh::stub_fetch)]
  fn i_cb08() {
    check_op!(0xcbu8, Some(0x08u8), "cb08");
    check_op!(0xcbu8, Some(0x09u8), "cb09");
    check_op!(0xcbu8, Some(0x0au8), "cb0a");
    check_op!(0xcbu8, Some(0x0bu8), "cb0b");
    check_op!(0xcbu8, Some(0x0cu8), "cb0c");
    check_op!(0xcbu8, Some(0x0du8), "cb0d");
    check_op!(0xcbu8, Some(0x0eu8), "cb0e");
    check_op!(0xcbu8, Some(0x0fu8), "cb0f");
    kani::cover!(true, "reached");
  }
  #[kani::proof]
  #[kani::unwind(8)]
  #[kani::stub(crate::mem::memory_read_byte, cpuh::rec_read)]
  #[kani::stub(crate::mem::memory_write_byte, cpuh::rec_write)]
  #[kani::stub(crate::mem::get_executable_memory_slice, cpuh::stub_fetch)]
  fn i_cb10() {
    check_op!(0xcbu8, Some(0x10u8), "cb10");
    check_op!(0xcbu8, Some(0x11u8), "cb11");
    check_op!(0xcbu8, Some(0x12u8), "cb12");
    check_op!(0xcbu8, Some(0x13u8), "cb13");
    check_op!(0xcbu8, Some(0x14u8), "cb14");
    check_op!(0xcbu8, Some(0x15u8), "cb15");
    check_op!(0xcbu8, Some(0x16u8), "cb16");
    check_op!(0xcbu8, Some(0x17u8), "cb17");
    kani::cover!(true, "reached");
  }
  #[kani::proof]
  #[kani::unwind(8)]
  #[kani::stub(crate::mem::memory_read_byte, cpuh::rec_read)]
  #[kani::stub(crate::mem::memory_write_byte, cpuh::rec_write)]
  #[kani::stub(crate::mem::get_executable_memory_slice, cpuh::stub_fetch)]
  fn i_cb18() {
    check_op!(0xcbu8, Some(0x18u8), "cb18");
    check_op!(0xcbu8, Some(0x19u8), "cb19");
    check_op!(0xcbu8, Some(0x1au8), "cb1a");
    check_op!(0xcbu8, Some(0x1bu8), "cb1b");
    check_op!(0xcbu8, Some(0x1cu8), "cb1c");
    check_op!(0xcbu8, Some(0x1du8), "cb1d");
    check_op!(0xcbu8, Some(0x1eu8), "cb1e");
    check_op!(0xcbu8, Some(0x1fu8), "cb1f");
    kani::cover!(true, "reached");
  }
  #[kani::proof]
  #[kani::unwind(8)]
  #[kani::stub(crate::mem::memory_read_byte, cpuh::rec_read)]
  #[kani::stub(crate::mem::memory_write_byte, cpuh::rec_write)]
  #[kani::stub(crate::mem::get_executable_memory_slice, cpuh::stub_fetch)]
  fn i_cb20() {
    check_op!(0xcbu8, Some(0x20u8), "cb20");
    check_op!(0xcbu8, Some(0x21u8), "cb21");
    check_op!(0xcbu8, Some(0x22u8), "cb22");
    check_op!(0xcbu8, Some(0x23u8), "cb23");
    check_op!(0xcbu8, Some(0x24u8), "cb24");
    check_op!(0xcbu8, Some(0x25u8), "cb25");
    check_op!(0xcbu8, Some(0x26u8), "cb26");
    check_op!(0xcbu8, Some(0x27u8), "cb27");
    kani::cover!(true, "reached");
  }
  #[kani::proof]
  #[kani::unwind(8)]
  #[kani::stub(crate::mem::memory_read_byte, cpuh::rec_read)]
  #[kani::stub(crate::mem::memory_write_byte, cpuh::rec_write)]
  #[kani::stub(crate::mem::get_executable_memory_slice, cpuh::stub_fetch)]
  fn i_cb28() {
    check_op!(0xcbu8, Some(0x28u8), "cb28");
    check_op!(0xcbu8, Some(0x29u8), "cb29");
    check_op!(0xcbu8, Some(0x2au8), "cb2a");
    check_op!(0xcbu8, Some(0x2bu8), "cb2b");
    check_op!(0xcbu8, Some(0x2cu8), "cb2c");
    check_op!(0xcbu8, Some(0x2du8), "cb2d");
    check_op!(0xcbu8, Some(0x2eu8), "cb2e");
    check_op!(0xcbu8, Some(0x2fu8), "cb2f");
    kani::cover!(true, "reached");
  }
  #[kani::proof]
  #[kani::unwind(8)]
  #[kani::stub(crate::mem::memory_read_byte, cpuh::rec_read)]
  #[kani::stub(crate::mem::memory_write_byte, cpuh::rec_write)]
  #[kani::stub(crate::mem::get_executable_memory_slice, cpuh::stub_fetch)]
  fn i_cb30() {
    check_op!(0xcbu8, Some(0x30u8), "cb30");
    check_op!(0xcbu8, Some(0x31u8), "cb31");
    check_op!(0xcbu8, Some(0x32u8), "cb32");
    check_op!(0xcbu8, Some(0x33u8), "cb33");
    check_op!(0xcbu8, Some(0x34u8), "cb34");
    check_op!(0xcbu8, Some(0x35u8), "cb35");
    check_op!(0xcbu8, Some(0x36u8), "cb36");
    check_op!(0xcbu8, Some(0x37u8), "cb37");
    kani::cover!(true, "reached");
  }
  #[kani::proof]
  #[kani::unwind(8)]
  #[kani::stub(crate::mem::memory_read_byte, cpuh::rec_read)]
  #[kani::stub(crate::mem::memory_write_byte, cpuh::rec_write)]
  #[kani::stub(crate::mem::get_executable_memory_slice, cpuh::stub_fetch)]
  fn i_cb38() {
    check_op!(0xcbu8, Some(0x38u8), "cb38");
    check_op!(0xcbu8, Some(0x39u8), "cb39");
    check_op!(0xcbu8, Some(0x3au8), "cb3a");
    check_op!(0xcbu8, Some(0x3bu8), "cb3b");
    check_op!(0xcbu8, Some(0x3cu8), "cb3c");
    check_op!(0xcbu8, Some(0x3du8), "cb3d");
    check_op!(0xcbu8, Some(0x3eu8), "cb3e");
    check_op!(0xcbu8, Some(0x3fu8), "cb3f");
    kani::cover!(true, "reached");
  }
  #[kani::proof]
  #[kani::unwind(8)]
  #[kani::stub(crate::mem::memory_read_byte, cpuh::rec_read)]
  #[kani::stub(crate::mem::memory_write_byte, cpuh::rec_write)]
  #[kani::stub(crate::mem::get_executable_memory_slice, cpuh::stub_fetch)]
  fn i_cb40() {
    check_op!(0xcbu8, Some(0x40u8), "cb40");
    check_op!(0xcbu8, Some(0x41u8), "cb41");
    check_op!(0xcbu8, Some(0x42u8), "cb42");
    check_op!(0xcbu8, Some(0x43u8), "cb43");
    check_op!(0xcbu8, Some(0x44u8), "cb44");
    check_op!(0xcbu8, Some(0x45u8), "cb45");
    check_op!(0xcbu8, Some(0x46u8), "cb46");
    check_op!(0xcbu8, Some(0x47u8), "cb47");
    kani::cover!(true, "reached");
  }
  #[kani::proof]
  #[kani::unwind(8)]
  #[kani::stub(crate::mem::memory_read_byte, cpuh::rec_read)]
  #[kani::stub(crate::mem::memory_write_byte, cpuh::rec_write)]
  #[kani::stub(crate::mem::get_executable_memory_slice, cpuh::stub_fetch)]
  fn i_cb48() {
    check_op!(0xcbu8, Some(0x48u8), "cb48");
    check_op!(0xcbu8, Some(0x49u8), "cb49");
    check_op!(0xcbu8, Some(0x4au8), "cb4a");
    check_op!(0xcbu8, Some(0x4bu8), "cb4b");
    check_op!(0xcbu8, Some(0x4cu8), "cb4c");
    check_op!(0xcbu8, Some(0x4du8), "cb4d");
    check_op!(0xcbu8, Some(0x4eu8), "cb4e");
    check_op!(0xcbu8, Some(0x4fu8), "cb4f");
    kani::cover!(true, "reached");
  }
  #[kani::proof]
  #[kani::unwind(8)]
  #[kani::stub(crate::mem::memory_read_byte, cpuh::rec_read)]
  #[kani::stub(crate::mem::memory_write_byte, cpuh::rec_write)]
  #[kani::stub(crate::mem::get_executable_memory_slice, cpuh::stub_fetch)]
  fn i_cb50() {
    check_op!(0xcbu8, Some(0x50u8), "cb50");
    check_op!(0xcbu8, Some(0x51u8), "cb51");
    check_op!(0xcbu8, Some(0x52u8), "cb52");
    check_op!(0xcbu8, Some(0x53u8), "cb53");
    check_op!(0xcbu8, Some(0x54u8), "cb54");
    check_op!(0xcbu8, Some(0x55u8), "cb55");
    check_op!(0xcbu8, Some(0x56u8), "cb56");
    check_op!(0xcbu8, Some(0x57u8), "cb57");
    kani::cover!(true, "reached");
  }
  #[kani::proof]
  #[kani::unwind(8)]
  #[kani::stub(crate::mem::memory_read_byte, cpuh::rec_read)]
  #[kani::stub(crate::mem::memory_write_byte, cpuh::rec_write)]
  #[kani::stub(crate::mem::get_executable_memory_slice, cpuh::stub_fetch)]
  fn i_cb58() {
    check_op!(0xcbu8, Some(0x58u8), "cb58");
    check_op!(0xcbu8, Some(0x59u8), "cb59");
    check_op!(0xcbu8, Some(0x5au8), "cb5a");
    check_op!(0xcbu8, Some(0x5bu8), "cb5b");
    check_op!(0xcbu8, Some(0x5cu8), "cb5c");
    check_op!(0xcbu8, Some(0x5du8), "cb5d");
    check_op!(0xcbu8, Some(0x5eu8), "cb5e");
    check_op!(0xcbu8, Some(0x5fu8), "cb5f");
    kani::cover!(true, "reached");
  }
  #[kani::proof]
  #[kani::unwind(8)]
  #[kani::stub(crate::mem::memory_read_byte, cpuh::rec_read)]
  #[kani::stub(crate::mem::memory_write_byte, cpuh::rec_write)]
  #[kani::stub(crate::mem::get_executable_memory_slice, cpuh::stub_fetch)]
  fn i_cb60() {
    check_op!(0xcbu8, Some(0x60u8), "cb60");
    check_op!(0xcbu8, Some(0x61u8), "cb61");
    check_op!(0xcbu8, Some(0x62u8), "cb62");
    check_op!(0xcbu8, Some(0x63u8), "cb63");
    check_op!(0xcbu8, Some(0x64u8), "cb64");
    check_op!(0xcbu8, Some(0x65u8), "cb65");
    check_op!(0xcbu8, Some(0x66u8), "cb66");
    check_op!(0xcbu8, Some(0x67u8), "cb67");
    kani::cover!(true, "reached");
  }
  #[kani::proof]
  #[kani::unwind(8)]
  #[kani::stub(crate::mem::memory_read_byte, cpuh::rec_read)]
  #[kani::stub(crate::mem::memory_write_byte, cpuh::rec_write)]
  #[kani::stub(crate::mem::get_executable_memory_slice, cpuh::stub_fetch)]
  fn i_cb68() {
    check_op!(0xcbu8, Some(0x68u8), "cb68");
    check_op!(0xcbu8, Some(0x69u8), "cb69");
    check_op!(0xcbu8, Some(0x6au8), "cb6a");
    check_op!(0xcbu8, Some(0x6bu8), "cb6b");
    check_op!(0xcbu8, Some(0x6cu8), "cb6c");
    check_op!(0xcbu8, Some(0x6du8), "cb6d");
    check_op!(0xcbu8, Some(0x6eu8), "cb6e");
    check_op!(0xcbu8, Some(0x6fu8), "cb6f");
    kani::cover!(true, "reached");
  }
  #[kani::proof]
  #[kani::unwind(8)]
  #[kani::stub(crate::mem::memory_read_byte, cpuh::rec_read)]
  #[kani::stub(crate::mem::memory_write_byte, cpuh::rec_write)]
  #[kani::stub(crate::mem::get_executable_memory_slice, cpuh::stub_fetch)]
  fn i_cb70() {
    check_op!(0xcbu8, Some(0x70u8), "cb70");
    check_op!(0xcbu8, Some(0x71u8), "cb71");
    check_op!(0xcbu8, Some(0x72u8), "cb72");
    check_op!(0xcbu8, Some(0x73u8), "cb73");
    check_op!(0xcbu8, Some(0x74u8), "cb74");
    check_op!(0xcbu8, Some(0x75u8), "cb75");
    check_op!(0xcbu8, Some(0x76u8), "cb76");
    check_op!(0xcbu8, Some(0x77u8), "cb77");
    kani::cover!(true, "reached");
  }
  #[kani::proof]
  #[kani::unwind(8)]
  #[kani::stub(crate::mem::memory_read_byte, cpuh::rec_read)]
  #[kani::stub(crate::mem::memory_write_byte, cpuh::rec_write)]
  #[kani::stub(crate::mem::get_executable_memory_slice, cpuh::stub_fetch)]
  fn i_cb78() {
    check_op!(0xcbu8, Some(0x78u8), "cb78");
    check_op!(0xcbu8, Some(0x79u8), "cb79");
    check_op!(0xcbu8, Some(0x7au8), "cb7a");
    check_op!(0xcbu8, Some(0x7bu8), "cb7b");
    check_op!(0xcbu8, Some(0x7cu8), "cb7c");
    check_op!(0xcbu8, Some(0x7du8), "cb7d");
    check_op!(0xcbu8, Some(0x7eu8), "cb7e");
    check_op!(0xcbu8, Some(0x7fu8), "cb7f");
    kani::cover!(true, "reached");
  }
  #[kani::proof]
  #[kani::unwind(8)]
  #[kani::stub(crate::mem::memory_read_byte, cpuh::rec_read)]
  #[kani::stub(crate::mem::memory_write_byte, cpuh::rec_write)]
  #[kani::stub(crate::mem::get_executable_memory_slice, cpuh::stub_fetch)]
  fn i_cb80() {
    check_op!(0xcbu8, Some(0x80u8), "cb80");
    check_op!(0xcbu8, Some(0x81u8), "cb81");
    check_op!(0xcbu8, Some(0x82u8), "cb82");
    check_op!(0xcbu8, Some(0x83u8), "cb83");
    check_op!(0xcbu8, Some(0x84u8), "cb84");
    check_op!(0xcbu8, Some(0x85u8), "cb85");
    check_op!(0xcbu8, Some(0x86u8), "cb86");
    check_op!(0xcbu8, Some(0x87u8), "cb87");
    kani::cover!(true, "reached");
  }
  #[kani::proof]
  #[kani::unwind(8)]
  #[kani::stub(crate::mem::memory_read_byte, cpuh::rec_read)]
  #[kani::stub(crate::mem::memory_write_byte, cpuh::rec_write)]
  #[kani::stub(crate::mem::get_executable_memory_slice, cpuh::stub_fetch)]
  fn i_cb88() {
    check_op!(0xcbu8, Some(0x88u8), "cb88");
    check_op!(0xcbu8, Some(0x89u8), "cb89");
    check_op!(0xcbu8, Some(0x8au8), "cb8a");
    check_op!(0xcbu8, Some(0x8bu8), "cb8b");
    check_op!(0xcbu8, Some(0x8cu8), "cb8c");
    check_op!(0xcbu8, Some(0x8du8), "cb8d");
    check_op!(0xcbu8, Some(0x8eu8), "cb8e");
    check_op!(0xcbu8, Some(0x8fu8), "cb8f");
    kani::cover!(true, "reached");
  }
  #[kani::proof]
  #[kani::unwind(8)]
  #[kani::stub(crate::mem::memory_read_byte, cpuh::rec_read)]
  #[kani::stub(crate::mem::memory_write_byte, cpuh::rec_write)]
  #[kani::stub(crate::mem::get_executable_memory_slice, cpuh::stub_fetch)]
  fn i_cb90() {
    check_op!(0xcbu8, Some(0x90u8), "cb90");
    check_op!(0xcbu8, Some(0x91u8), "cb91");
    check_op!(0xcbu8, Some(0x92u8), "cb92");
    check_op!(0xcbu8, Some(0x93u8), "cb93");
    check_op!(0xcbu8, Some(0x94u8), "cb94");
    check_op!(0xcbu8, Some(0x95u8), "cb95");
    check_op!(0xcbu8, Some(0x96u8), "cb96");
    check_op!(0xcbu8, Some(0x97u8), "cb97");
    kani::cover!(true, "reached");
  }
  #[kani::proof]
  #[kani::unwind(8)]
  #[kani::stub(crate::mem::memory_read_byte, cpuh::rec_read)]
  #[kani::stub(crate::mem::memory_write_byte, cpuh::rec_write)]
  #[kani::stub(crate::mem::get_executable_memory_slice, cpuh::stub_fetch)]
  fn i_cb98() {
    check_op!(0xcbu8, Some(0x98u8), "cb98");
    check_op!(0xcbu8, Some(0x99u8), "cb99");
    check_op!(0xcbu8, Some(0x9au8), "cb9a");
    check_op!(0xcbu8, Some(0x9bu8), "cb9b");
    check_op!(0xcbu8, Some(0x9cu8), "cb9c");
    check_op!(0xcbu8, Some(0x9du8), "cb9d");
    check_op!(0xcbu8, Some(0x9eu8), "cb9e");
    check_op!(0xcbu8, Some(0x9fu8), "cb9f");
    kani::cover!(true, "reached");
  }
  #[kani::proof]
  #[kani::unwind(8)]
  #[kani::stub(crate::mem::memory_read_byte, cpuh::rec_read)]
  #[kani::stub(crate::mem::memory_write_byte, cpuh::rec_write)]
  #[kani::stub(crate::mem::get_executable_memory_slice, cpuh::stub_fetch)]
  fn i_cba0() {
    check_op!(0xcbu8, Some(0xa0u8), "cba0");
    check_op!(0xcbu8, Some(0xa1u8), "cba1");
    check_op!(0xcbu8, Some(0xa2u8), "cba2");
    check_op!(0xcbu8, Some(0xa3u8), "cba3");
    check_op!(0xcbu8, Some(0xa4u8), "cba4");
    check_op!(0xcbu8, Some(0xa5u8), "cba5");
    check_op!(0xcbu8, Some(0xa6u8), "cba6");
    check_op!(0xcbu8, Some(0xa7u8), "cba7");
    kani::cover!(true, "reached");
  }
  #[kani::proof]
  #[kani::unwind(8)]
  #[kani::stub(crate::mem::memory_read_byte, cpuh::rec_read)]
  #[kani::stub(crate::mem::memory_write_byte, cpuh::rec_write)]
  #[kani::stub(crate::mem::get_executable_memory_slice, cpuh::stub_fetch)]
  fn i_cba8() {
    check_op!(0xcbu8, Some(0xa8u8), "cba8");
    check_op!(0xcbu8, Some(0xa9u8), "cba9");
    check_op!(0xcbu8, Some(0xaau8), "cbaa");
    check_op!(0xcbu8, Some(0xabu8), "cbab");
    check_op!(0xcbu8, Some(0xacu8), "cbac");
    check_op!(0xcbu8, Some(0xadu8), "cbad");
    check_op!(0xcbu8, Some(0xaeu8), "cbae");
    check_op!(0xcbu8, Some(0xafu8), "cbaf");
    kani::cover!(true, "reached");
  }
  #[kani::proof]
  #[kani::unwind(8)]
  #[kani::stub(crate::mem::memory_read_byte, cpuh::rec_read)]
  #[kani::stub(crate::mem::memory_write_byte, cpuh::rec_write)]
  #[kani::stub(crate::mem::get_executable_memory_slice, cpuh::stub_fetch)]
  fn i_cbb0() {
    check_op!(0xcbu8, Some(0xb0u8), "cbb0");
    check_op!(0xcbu8, Some(0xb1u8), "cbb1");
    check_op!(0xcbu8, Some(0xb2u8), "cbb2");
    check_op!(0xcbu8, Some(0xb3u8), "cbb3");
    check_op!(0xcbu8, Some(0xb4u8), "cbb4");
    check_op!(0xcbu8, Some(0xb5u8), "cbb5");
    check_op!(0xcbu8, Some(0xb6u8), "cbb6");
    check_op!(0xcbu8, Some(0xb7u8), "cbb7");
    kani::cover!(true, "reached");
  }
  #[kani::proof]
  #[kani::unwind(8)]
  #[kani::stub(crate::mem::memory_read_byte, cpuh::rec_read)]
  #[kani::stub(crate::mem::memory_write_byte, cpuh::rec_write)]
  #[kani::stub(crate::mem::get_executable_memory_slice, cpuh::stub_fetch)]
  fn i_cbb8() {
    check_op!(0xcbu8, Some(0xb8u8), "cbb8");
    check_op!(0xcbu8, Some(0xb9u8), "cbb9");
    check_op!(0xcbu8, Some(0xbau8), "cbba");
    check_op!(0xcbu8, Some(0xbbu8), "cbbb");
    check_op!(0xcbu8, Some(0xbcu8), "cbbc");
    check_op!(0xcbu8, Some(0xbdu8), "cbbd");
    check_op!(0xcbu8, Some(0xbeu8), "cbbe");
    check_op!(0xcbu8, Some(0xbfu8), "cbbf");
    kani::cover!(true, "reached");
  }
  #[kani::proof]
  #[kani::unwind(8)]
  #[kani::stub(crate::mem::memory_read_byte, cpuh::rec_read)]
  #[kani::stub(crate::mem::memory_write_byte, cpuh::rec_write)]
  #[kani::stub(crate::mem::get_executable_memory_slice, cpuh::stub_fetch)]
  fn i_cbc0() {
    check_op!(0xcbu8, Some(0xc0u8), "cbc0");
    check_op!(0xcbu8, Some(0xc1u8), "cbc1");
    check_op!(0xcbu8, Some(0xc2u8), "cbc2");
    check_op!(0xcbu8, Some(0xc3u8), "cbc3");
    check_op!(0xcbu8, Some(0xc4u8), "cbc4");
    check_op!(0xcbu8, Some(0xc5u8), "cbc5");
    check_op!(0xcbu8, Some(0xc6u8), "cbc6");
    check_op!(0xcbu8, Some(0xc7u8), "cbc7");
    kani::cover!(true, "reached");
  }
  #[kani::proof]
  #[kani::unwind(8)]
  #[kani::stub(crate::mem::memory_read_byte, cpuh::rec_read)]
  #[kani::stub(crate::mem::memory_write_byte, cpuh::rec_write)]
  #[kani::stub(crate::mem::get_executable_memory_slice, cpuh::stub_fetch)]
  fn i_cbc8() {
    check_op!(0xcbu8, Some(0xc8u8), "cbc8");
    check_op!(0xcbu8, Some(0xc9u8), "cbc9");
    check_op!(0xcbu8, Some(0xcau8), "cbca");
    check_op!(0xcbu8, Some(0xcbu8), "cbcb");
    check_op!(0xcbu8, Some(0xccu8), "cbcc");
    check_op!(0xcbu8, Some(0xcdu8), "cbcd");
    check_op!(0xcbu8, Some(0xceu8), "cbce");
    check_op!(0xcbu8, Some(0xcfu8), "cbcf");
    kani::cover!(true, "reached");
  }
  #[kani::proof]
  #[kani::unwind(8)]
  #[kani::stub(crate::mem::memory_read_byte, cpuh::rec_read)]
  #[kani::stub(crate::mem::memory_write_byte, cpuh::rec_write)]
  #[kani::stub(crate::mem::get_executable_memory_slice, cpuh::stub_fetch)]
  fn i_cbd0() {
    check_op!(0xcbu8, Some(0xd0u8), "cbd0");
    check_op!(0xcbu8, Some(0xd1u8), "cbd1");
    check_op!(0xcbu8, Some(0xd2u8), "cbd2");
    check_op!(0xcbu8, Some(0xd3u8), "cbd3");
    check_op!(0xcbu8, Some(0xd4u8), "cbd4");
    check_op!(0xcbu8, Some(0xd5u8), "cbd5");
    check_op!(0xcbu8, Some(0xd6u8), "cbd6");
    check_op!(0xcbu8, Some(0xd7u8), "cbd7");
    kani::cover!(true, "reached");
  }
  #[kani::proof]
  #[kani::unwind(8)]
  #[kani::stub(crate::mem::memory_read_byte, cpuh::rec_read)]
  #[kani::stub(crate::mem::memory_write_byte, cpuh::rec_write)]
  #[kani::stub(crate::mem::get_executable_memory_slice, cpuh::stub_fetch)]
  fn i_cbd8() {
    check_op!(0xcbu8, Some(0xd8u8), "cbd8");
    check_op!(0xcbu8, Some(0xd9u8), "cbd9");
    check_op!(0xcbu8, Some(0xdau8), "cbda");
    check_op!(0xcbu8, Some(0xdbu8), "cbdb");
    check_op!(0xcbu8, Some(0xdcu8), "cbdc");
    check_op!(0xcbu8, Some(0xddu8), "cbdd");
    check_op!(0xcbu8, Some(0xdeu8), "cbde");
    check_op!(0xcbu8, Some(0xdfu8), "cbdf");
    kani::cover!(true, "reached");
  }
  #[kani::proof]
  #[kani::unwind(8)]
  #[kani::stub(crate::mem::memory_read_byte, cpuh::rec_read)]
  #[kani::stub(crate::mem::memory_write_byte, cpuh::rec_write)]
  #[kani::stub(crate::mem::get_executable_memory_slice, cpuh::stub_fetch)]
  fn i_cbe0() {
    check_op!(0xcbu8, Some(0xe0u8), "cbe0");
    check_op!(0xcbu8, Some(0xe1u8), "cbe1");
    check_op!(0xcbu8, Some(0xe2u8), "cbe2");
    check_op!(0xcbu8, Some(0xe3u8), "cbe3");
    check_op!(0xcbu8, Some(0xe4u8), "cbe4");
    check_op!(0xcbu8, Some(0xe5u8), "cbe5");
    check_op!(0xcbu8, Some(0xe6u8), "cbe6");
    check_op!(0xcbu8, Some(0xe7u8), "cbe7");
    kani::cover!(true, "reached");
  }
  #[kani::proof]
  #[kani::unwind(8)]
  #[kani::stub(crate::mem::memory_read_byte, cpuh::rec_read)]
  #[kani::stub(crate::mem::memory_write_byte, cpuh::rec_write)]
  #[kani::stub(crate::mem::get_executable_memory_slice, cpuh::stub_fetch)]
  fn i_cbe8() {
    check_op!(0xcbu8, Some(0xe8u8), "cbe8");
    check_op!(0xcbu8, Some(0xe9u8), "cbe9");
    check_op!(0xcbu8, Some(0xeau8), "cbea");
    check_op!(0xcbu8, Some(0xebu8), "cbeb");
    check_op!(0xcbu8, Some(0xecu8), "cbec");
    check_op!(0xcbu8, Some(0xedu8), "cbed");
    check_op!(0xcbu8, Some(0xeeu8), "cbee");
    check_op!(0xcbu8, Some(0xefu8), "cbef");
    kani::cover!(true, "reached");
  }
  #[kani::proof]
  #[kani::unwind(8)]
  #[kani::stub(crate::mem::memory_read_byte, cpuh::rec_read)]
  #[kani::stub(crate::mem::memory_write_byte, cpuh::rec_write)]
  #[kani::stub(crate::mem::get_executable_memory_slice, cpuh::stub_fetch)]
  fn i_cbf0() {
    check_op!(0xcbu8, Some(0xf0u8), "cbf0");
    check_op!(0xcbu8, Some(0xf1u8), "cbf1");
    check_op!(0xcbu8, Some(0xf2u8), "cbf2");
    check_op!(0xcbu8, Some(0xf3u8), "cbf3");
    check_op!(0xcbu8, Some(0xf4u8), "cbf4");
    check_op!(0xcbu8, Some(0xf5u8), "cbf5");
    check_op!(0xcbu8, Some(0xf6u8), "cbf6");
    check_op!(0xcbu8, Some(0xf7u8), "cbf7");
    kani::cover!(true, "reached");
  }
  #[kani::proof]
  #[kani::unwind(8)]
  #[kani::stub(crate::mem::memory_read_byte, cpuh::rec_read)]
  #[kani::stub(crate::mem::memory_write_byte, cpuh::rec_write)]
  #[kani::stub(crate::mem::get_executable_memory_slice, cpuh::stub_fetch)]
  fn i_cbf8() {
    check_op!(0xcbu8, Some(0xf8u8), "cbf8");
    check_op!(0xcbu8, Some(0xf9u8), "cbf9");
    check_op!(0xcbu8, Some(0xfau8), "cbfa");
    check_op!(0xcbu8, Some(0xfbu8), "cbfb");
    check_op!(0xcbu8, Some(0xfcu8), "cbfc");
    check_op!(0xcbu8, Some(0xfdu8), "cbfd");
    check_op!(0xcbu8, Some(0xfeu8), "cbfe");
    check_op!(0xcbu8, Some(0xffu8), "cbff");
    kani::cover!(true, "reached");
  }
  undef!(i_d3_terminates, 0xd3);
  undef!(i_db_terminates, 0xdb);
  undef!(i_dd_terminates, 0xdd);
  undef!(i_e3_terminates, 0xe3);
  undef!(i_e4_terminates, 0xe4);
  undef!(i_eb_terminates, 0xeb);
  undef!(i_ec_terminates, 0xec);
  undef!(i_ed_terminates, 0xed);
  undef!(i_f4_terminates, 0xf4);
  undef!(i_fc_terminates, 0xfc);
  undef!(i_fd_terminates, 0xfd);
  #[kani::proof]
  #[kani::unwind(8)]
  #[kani::stub(crate::mem::memory_read_byte, cpuh::rec_read)]
  #[kani::stub(crate::mem::memory_write_byte, cpuh::rec_write)]
  #[kani::stub(crate::mem::get_executable_memory_slice, cpuh::stub_fetch)]
  fn i_witness_must_fail() {
    check_op!(0x34u8, None, "34");
    assert!(false, "C05.witness");
  }
  // VERIF-END verif_interp
}
