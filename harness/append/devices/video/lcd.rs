#[cfg(kani)]
impl LCD {
  /// Same value as `LCD::new()` without the 23 040-iteration push loop.
  pub fn verif_new() -> Self {
    Self { visible_buffer: vec![0u8; LCD_SIZE].into_boxed_slice(), writing_buffer: vec![0u8; LCD_SIZE].into_boxed_slice(), enabled: true }
  }
}
