#[cfg(kani)]
pub mod verif_video {
  use super::*;

  /// Closed-form schedule position of a (mode, dots, line) triple, if it is one the schedule visits.
  pub fn position(mode: u8, dots: usize, line: u8) -> Option<usize> {
    if dots % 4 != 0 { return None; }
    let l = line as usize;
    match mode {
      2 => if l < 144 && dots < 80 { Some(l * 456 + dots) } else { None },
      3 => if l < 144 && dots < 188 { Some(l * 456 + 80 + dots) } else { None },
      0 => if l < 144 && dots < 188 { Some(l * 456 + 268 + dots) } else { None },
      1 => if l >= 144 && l < 154 && dots < 456 { Some(l * 456 + dots) } else { None },
      _ => None,
    }
  }
  /// (mode, dots, line) at schedule position p (p a multiple of 4, below 70224).
  pub fn at(p: usize) -> (u8, usize, u8) {
    let line = p / 456;
    let x = p % 456;
    if line >= 144 { (1, x, line as u8) }
    else if x < 80 { (2, x, line as u8) }
    else if x < 268 { (3, x - 80, line as u8) }
    else { (0, x - 268, line as u8) }
  }

  /// Arbitrary VideoState at an arbitrary valid schedule position, with a pixel pipeline state consistent with it.
  pub fn any_state() -> (VideoState, usize) {
    let mut v = VideoState::new();
    let p: usize = kani::any();
    kani::assume(p < 70224 && p % 4 == 0);
    let (mode, dots, line) = at(p);
    v.current_mode = mode;
    v.current_mode_dots = dots;
    v.current_line = line;
    // STAT enables and LYC go through the public register writes (robust to how the controller stores them)
    let stat: u8 = kani::any();
    let lyc: u8 = kani::any();
    let _ = v.set_lcd_status(stat);
    let _ = v.set_ly_compare(lyc);
    v.scroll_x = kani::any();
    v.scroll_y = kani::any();
    v.window_x = kani::any();
    v.window_y = kani::any();
    v.window_enabled = kani::any();
    v.object_enabled = kani::any();
    v.bg_window_enabled = kani::any();
    v.current_tile_cache = kani::any();
    let tx: usize = kani::any();
    kani::assume(tx < 32);
    v.next_cached_tile_x = tx;
    v.current_obj_line_cache_pixel = 8 + if mode == 3 { if dots < 160 { dots } else { 160 } } else { 0 };
    v.current_window_line = if mode == 3 && v.window_enabled && line >= v.window_y { Some((line - v.window_y) as usize) } else { None };
    (v, p)
  }
  /// Scratch line the pixel writer draws into in schedule harnesses (the 23 040-byte frame buffers are not the subject there).
  pub static mut LINEBUF: [u8; 160] = [0xd1; 160];
  pub fn stub_line<'a>(_l: &'a mut lcd::LCD, _line: usize) -> &'a mut [u8] { unsafe { &mut *core::ptr::addr_of_mut!(LINEBUF) } }
  pub fn noop_sprites(_v: &mut VideoState, _vram: &Box<[u8]>, _oam: &Box<[u8]>) {}
  pub fn noop_tile(_v: &mut VideoState, _vram: &Box<[u8]>) {}
}

#[cfg(all(kani, verif_c14))]
mod verif_c14 {
  use super::*;
  use super::verif_video::*;
  use crate::vassert;
  use crate::verif::vstub;

  fn stat_expected(v_lyc: u8, e_lyc: bool, e0: bool, e1: bool, e2: bool, p0: usize, p1: usize) -> bool {
    let (m0, _d0, l0) = at(p0);
    let (m1, _d1, l1) = at(p1);
    let entered = m1 != m0;
    let mode_irq = entered && ((m1 == 0 && e0) || (m1 == 1 && e1) || (m1 == 2 && e2));
    let ly_changed = l1 != l0;
    let lyc_irq = ly_changed && l1 == v_lyc && e_lyc;
    mode_irq || lyc_irq
  }

  /// One machine cycle (4 clocks) from any valid position.
  #[kani::proof]
  #[kani::unwind(6)]
  #[kani::stub(crate::devices::video::lcd::LCD::new, vstub::stub_lcd_new)]
  #[kani::stub(crate::devices::video::VideoState::find_current_line_sprites, noop_sprites)]
  #[kani::stub(crate::devices::video::VideoState::cache_next_tile_row, noop_tile)]
  #[kani::stub(crate::devices::video::VideoState::cache_next_window_tile_row, noop_tile)]
  #[kani::stub(crate::devices::video::lcd::LCD::get_writing_buffer_line, stub_line)]
  fn c14_step() {
    let (mut v, p) = any_state();
    let vram: Box<[u8]> = vec![0u8; 0x2000].into_boxed_slice();
    let oam: Box<[u8]> = vec![0u8; 0xa0].into_boxed_slice();
    let stat0 = v.get_lcd_status();
    let (lyc, e_lyc, e0, e1, e2) = (v.get_ly_compare(), stat0 & 0x40 != 0, stat0 & 0x08 != 0, stat0 & 0x10 != 0, stat0 & 0x20 != 0);
    let f = v.run_clock_cycles(ClockCycles(4), &vram, &oam).as_u8();
    let p1 = (p + 4) % 70224;
    let (m1, d1, l1) = at(p1);
    vassert!(v.get_ly() == l1, "C14.step.ly");
    vassert!(v.get_current_mode() == m1, "C14.step.mode");
    vassert!(v.current_mode_dots == d1, "C14.step.dots");
    vassert!((f & 1 != 0) == (p1 == 144 * 456), "C14.step.vblank_exactly_at_line_144");
    vassert!((f & 2 != 0) == stat_expected(lyc, e_lyc, e0, e1, e2, p, p1), "C14.step.stat_request");
    vassert!(f & !3 == 0, "C14.step.no_other_request");
    let st = v.get_lcd_status();
    vassert!(st & 3 == m1, "C14.step.stat_mode_bits");
    vassert!((st & 4 != 0) == (l1 == lyc), "C14.step.stat_coincidence_bit");
    vassert!((st & 0x40 != 0) == e_lyc && (st & 0x20 != 0) == e2 && (st & 0x10 != 0) == e1 && (st & 0x08 != 0) == e0, "C14.step.stat_enable_bits");
    kani::cover!(p1 == 144 * 456, "reached");
    core::mem::forget(v);
  }

  /// Batches: one call with 4k clocks equals k reference steps (position, OR-ed requests, STAT).
  fn batch(kmax: usize, fixed: bool, lo: usize, hi: usize) {
    let (mut a, mut p) = any_state();
    kani::assume(p >= lo && p < hi);
    if hi - lo <= 4 {
      // single start position: make it a compile-time constant for the symbolic executor (a constrained symbolic
      // position still makes every mode branch of every iteration reachable for symex)
      p = lo;
      let (m, d, l) = at(lo);
      a.current_mode = m; a.current_mode_dots = d; a.current_line = l;
      a.current_obj_line_cache_pixel = 8 + if m == 3 { if d < 160 { d } else { 160 } } else { 0 };
      a.current_window_line = None;
    }
    let vram: Box<[u8]> = vec![0u8; 0x2000].into_boxed_slice();
    let oam: Box<[u8]> = vec![0u8; 0xa0].into_boxed_slice();
    let stat0 = a.get_lcd_status();
    let (lyc, e_lyc, e0, e1, e2) = (a.get_ly_compare(), stat0 & 0x40 != 0, stat0 & 0x08 != 0, stat0 & 0x10 != 0, stat0 & 0x20 != 0);
    let ksym: usize = kani::any();
    kani::assume(ksym >= 1 && ksym <= kmax);
    let k = if fixed { kmax } else { ksym }; // a fixed batch length must be a constant for the symbolic executor
    let fa = a.run_clock_cycles(ClockCycles(4 * k), &vram, &oam).as_u8();
    let mut want_stat = false;
    let mut want_vblank = false;
    let mut q = p;
    let mut i = 0;
    while i < k {
      let q1 = (q + 4) % 70224;
      if q1 == 144 * 456 { want_vblank = true; }
      if stat_expected(lyc, e_lyc, e0, e1, e2, q, q1) { want_stat = true; }
      q = q1;
      i += 1;
    }
    let (m1, d1, l1) = at(q);
    vassert!(a.get_ly() == l1 && a.get_current_mode() == m1 && a.current_mode_dots == d1, "C14.batch.position");
    vassert!((fa & 1 != 0) == want_vblank, "C14.batch.vblank");
    vassert!((fa & 2 != 0) == want_stat, "C14.batch.stat_request");
    vassert!(a.get_lcd_status() & 7 == (m1 | if l1 == lyc { 4 } else { 0 }), "C14.batch.stat_bits");
    kani::cover!(k == kmax, "reached");
    core::mem::forget(a);
  }
  /// Two machine cycles in one call, from any position.
  #[kani::proof]
  #[kani::unwind(8)]
  #[kani::stub(crate::devices::video::lcd::LCD::new, vstub::stub_lcd_new)]
  #[kani::stub(crate::devices::video::VideoState::find_current_line_sprites, noop_sprites)]
  #[kani::stub(crate::devices::video::VideoState::cache_next_tile_row, noop_tile)]
  #[kani::stub(crate::devices::video::VideoState::cache_next_window_tile_row, noop_tile)]
  #[kani::stub(crate::devices::video::lcd::LCD::get_writing_buffer_line, stub_line)]
  fn c14_batch_2steps() { batch(2, true, 0, 70224); }
  /// A 22-cycle batch (88 clocks: 8 to the end of VBlank, 80 of mode 2, entering mode 3) from the last-but-one machine cycle of VBlank across the frame wrap into line 0
  /// (start position concrete: a symbolic one did not finish in 30 min; enables, LYC and scroll registers stay symbolic).
  #[kani::proof]
  #[kani::unwind(30)]
  #[kani::stub(crate::devices::video::lcd::LCD::new, vstub::stub_lcd_new)]
  #[kani::stub(crate::devices::video::VideoState::find_current_line_sprites, noop_sprites)]
  #[kani::stub(crate::devices::video::VideoState::cache_next_tile_row, noop_tile)]
  #[kani::stub(crate::devices::video::VideoState::cache_next_window_tile_row, noop_tile)]
  #[kani::stub(crate::devices::video::lcd::LCD::get_writing_buffer_line, stub_line)]
  fn c14_batch_across_vblank_exit() { batch(22, true, 153 * 456 + 448, 153 * 456 + 452); }
  /// A 6-cycle batch across the line-143 -> 144 hand-over.
  #[kani::proof]
  #[kani::unwind(12)]
  #[kani::stub(crate::devices::video::lcd::LCD::new, vstub::stub_lcd_new)]
  #[kani::stub(crate::devices::video::VideoState::find_current_line_sprites, noop_sprites)]
  #[kani::stub(crate::devices::video::VideoState::cache_next_tile_row, noop_tile)]
  #[kani::stub(crate::devices::video::VideoState::cache_next_window_tile_row, noop_tile)]
  #[kani::stub(crate::devices::video::lcd::LCD::get_writing_buffer_line, stub_line)]
  fn c14_batch_into_vblank() { batch(6, true, 143 * 456 + 440, 144 * 456); }
  /// Thorough: a fixed 4-machine-cycle batch from any position (a symbolic batch length did not finish: the symbolic
  /// executor unrolls every mode branch of every iteration).
  #[cfg(verif_thorough)]
  #[kani::proof]
  #[kani::unwind(12)]
  #[kani::stub(crate::devices::video::lcd::LCD::new, vstub::stub_lcd_new)]
  #[kani::stub(crate::devices::video::VideoState::find_current_line_sprites, noop_sprites)]
  #[kani::stub(crate::devices::video::VideoState::cache_next_tile_row, noop_tile)]
  #[kani::stub(crate::devices::video::VideoState::cache_next_window_tile_row, noop_tile)]
  #[kani::stub(crate::devices::video::lcd::LCD::get_writing_buffer_line, stub_line)]
  fn c14_batch4() { batch(4, true, 0, 70224); }

  /// Writing STAT or LYC raises the request when it makes LY == LYC visible with the enable set; power-on state is on the schedule.
  #[kani::proof]
  #[kani::unwind(6)]
  #[kani::stub(crate::devices::video::lcd::LCD::new, vstub::stub_lcd_new)]
  fn c14_register_writes() {
    let (mut v, _p) = any_state();
    let val: u8 = kani::any();
    if kani::any() {
      let f = v.set_ly_compare(val).as_u8();
      vassert!(v.get_ly_compare() == val, "C14.lyc.readback");
      vassert!((f & 2 != 0) == (v.get_lcd_status() & 0x40 != 0 && val == v.get_ly()) && f & !2 == 0, "C14.lyc.write_request");
    } else {
      let f = v.set_lcd_status(val).as_u8();
      vassert!(v.get_lcd_status() & 0x78 == val & 0x78, "C14.stat.enable_readback");
      vassert!(f & !2 == 0, "C14.stat.write_request_kind");
    }
    let n = VideoState::new();
    vassert!(position(n.get_current_mode(), n.current_mode_dots, n.get_ly()).is_some(), "C14.power_on_position_valid");
    kani::cover!(true, "reached");
    core::mem::forget(v); core::mem::forget(n);
  }

  #[kani::proof]
  #[kani::unwind(6)]
  #[kani::stub(crate::devices::video::lcd::LCD::new, vstub::stub_lcd_new)]
  #[kani::stub(crate::devices::video::VideoState::find_current_line_sprites, noop_sprites)]
  #[kani::stub(crate::devices::video::VideoState::cache_next_tile_row, noop_tile)]
  #[kani::stub(crate::devices::video::VideoState::cache_next_window_tile_row, noop_tile)]
  #[kani::stub(crate::devices::video::lcd::LCD::get_writing_buffer_line, stub_line)]
  fn c14_witness_must_fail() {
    let (mut v, _p) = any_state();
    let vram: Box<[u8]> = vec![0u8; 0x2000].into_boxed_slice();
    let oam: Box<[u8]> = vec![0u8; 0xa0].into_boxed_slice();
    let _ = v.run_clock_cycles(ClockCycles(4), &vram, &oam);
    assert!(false, "C14.witness");
  }
  // VERIF-END verif_c14
}

#[cfg(all(kani, verif_c15))]
mod verif_c15 {
  use super::*;
  use crate::vassert;
  use crate::verif::vstub;

  // ---------------- reference compositor (Pan Docs: LCDC, tile data/maps, OAM, priorities) ----------------
  fn shade(pal: u8, idx: u8) -> u8 { [255u8, 170, 85, 0][((pal >> (2 * idx)) & 3) as usize] }
  fn tile_pixel(vram: &[u8], addr: usize, row: usize, col: usize) -> u8 {
    let lo = vram[addr + 2 * row]; let hi = vram[addr + 2 * row + 1];
    let bit = 7 - col;
    (((hi >> bit) & 1) << 1) | ((lo >> bit) & 1)
  }
  fn bgwin_tile_addr(lcdc: u8, index: u8) -> usize {
    if lcdc & 0x10 != 0 { index as usize * 16 } else { (0x1000i32 + (index as i8 as i32) * 16) as usize }
  }
  /// colour index (0-3) of the BG/window layer at screen (x, ly)
  fn ref_bgwin(vram: &[u8], lcdc: u8, scx: u8, scy: u8, wx: u8, wy: u8, x: usize, ly: u8) -> u8 {
    let win = lcdc & 0x20 != 0 && ly >= wy && x + 7 >= wx as usize;
    if win {
      let map = if lcdc & 0x40 != 0 { 0x1c00 } else { 0x1800 };
      let px = x + 7 - wx as usize; let py = (ly - wy) as usize;
      let t = vram[map + (py / 8) * 32 + px / 8];
      tile_pixel(vram, bgwin_tile_addr(lcdc, t), py % 8, px % 8)
    } else {
      let map = if lcdc & 0x08 != 0 { 0x1c00 } else { 0x1800 };
      let px = (x + scx as usize) & 255; let py = (ly as usize + scy as usize) & 255;
      let t = vram[map + (py / 8) * 32 + px / 8];
      tile_pixel(vram, bgwin_tile_addr(lcdc, t), py % 8, px % 8)
    }
  }
  /// object layer at screen x on line ly: Some((colour index 1-3, palette 0/1, behind_bg)) of the winning object
  fn ref_object(vram: &[u8], oam: &[u8], lcdc: u8, x: usize, ly: u8) -> Option<(u8, u8, bool)> {
    if lcdc & 0x02 == 0 { return None; }
    let h: i32 = if lcdc & 0x04 != 0 { 16 } else { 8 };
    // the first ten objects in OAM order whose Y range covers the line
    let mut sel = [0usize; 10]; let mut n = 0;
    let mut i = 0;
    while i < 40 && n < 10 {
      let oy = oam[4 * i] as i32 - 16;
      if (ly as i32) >= oy && (ly as i32) < oy + h { sel[n] = i; n += 1; }
      i += 1;
    }
    // among those covering x with a non-transparent pixel: lowest X wins, then lowest OAM index
    let mut best: Option<(u8, u8, bool)> = None; let mut best_x = 0u8; 
    let mut k = 0;
    while k < n {
      let o = sel[k];
      let (oy, ox, mut tile, attr) = (oam[4 * o] as i32 - 16, oam[4 * o + 1], oam[4 * o + 2], oam[4 * o + 3]);
      let sx = x as i32 + 8 - ox as i32; // column inside the object
      if sx >= 0 && sx < 8 {
        let mut row = ly as i32 - oy;
        if attr & 0x40 != 0 { row = h - 1 - row; }
        if h == 16 { tile &= 0xfe; }
        let col = if attr & 0x20 != 0 { 7 - sx } else { sx } as usize;
        let c = tile_pixel(vram, tile as usize * 16, row as usize, col);
        if c != 0 && (best.is_none() || ox < best_x) { best = Some((c, (attr >> 4) & 1, attr & 0x80 != 0)); best_x = ox; }
      }
      k += 1;
    }
    best
  }
  fn ref_pixel(vram: &[u8], oam: &[u8], lcdc: u8, bgp: u8, obp0: u8, obp1: u8, scx: u8, scy: u8, wx: u8, wy: u8, x: usize, ly: u8) -> u8 {
    let bg = ref_bgwin(vram, lcdc, scx, scy, wx, wy, x, ly);
    match ref_object(vram, oam, lcdc, x, ly) {
      Some((c, pal, behind)) if !(behind && bg != 0) => shade(if pal == 0 { obp0 } else { obp1 }, c),
      _ => shade(bgp, bg),
    }
  }

  // ---------------- harnesses ----------------

  /// tile::interleave against the bit-by-bit definition, all 65536 inputs; X-flip multiply trick, all 256 inputs.
  #[kani::proof]
  #[kani::unwind(10)]
  #[kani::stub(crate::devices::video::lcd::LCD::new, vstub::stub_lcd_new)]
  fn c15_bit_tricks() {
    let lo: u8 = kani::any(); let hi: u8 = kani::any();
    let got = tile::interleave(lo, hi);
    let mut want: u16 = 0;
    let mut b = 0;
    while b < 8 { want |= (((lo >> b) & 1) as u16) << (2 * b); want |= (((hi >> b) & 1) as u16) << (2 * b + 1); b += 1; }
    vassert!(got == want, "C15.interleave");
    // get_object_row with flip: bit-reversed bytes
    let v = VideoState::new();
    let mut vram = vec![0u8; 0x2000].into_boxed_slice();
    let t: u8 = kani::any(); let row: usize = kani::any();
    kani::assume(row < 16 && (t as usize) * 16 + 2 * row + 1 < 0x2000);
    vram[(t as usize) * 16 + 2 * row] = lo; vram[(t as usize) * 16 + 2 * row + 1] = hi;
    let plain = v.get_object_row(&vram, t as usize, row, false);
    let flipped = v.get_object_row(&vram, t as usize, row, true);
    vassert!(plain == want, "C15.object_row_plain");
    let mut want_f: u16 = 0;
    let mut c = 0;
    while c < 8 { want_f |= ((want >> (2 * c)) & 3) << (2 * (7 - c)); c += 1; }
    vassert!(flipped == want_f, "C15.object_row_flipped");
    kani::cover!(true, "reached");
    core::mem::forget(v);
  }

  /// One scan line through the real mode 2 -> 3 -> 0 sequence (114 machine cycles) with the given control registers and
  /// object layout; tile maps, tile data and palettes symbolic.  Every written pixel equals the reference composition.
  fn line(lcdc: u8, scx: u8, scy: u8, wx: u8, wy: u8, ly: u8, layout: u8, cycles: usize) {
    let mut v = VideoState::new();
    v.set_lcd_control(lcdc | 0x81);
    let (bgp, obp0, obp1): (u8, u8, u8) = (kani::any(), kani::any(), kani::any());
    v.set_bgp(bgp); v.set_obj_palette(0, obp0); v.set_obj_palette(1, obp1);
    v.set_scroll_x(scx); v.set_scroll_y(scy); v.set_window_x(wx); v.set_window_y(wy);
    // drawn through kani::any so that a counterexample's VRAM is replayable natively
    let raw: [u8; 0x2000] = kani::any();
    let vram: Box<[u8]> = Box::new(raw);
    let mut oam = vec![0u8; 0xa0].into_boxed_slice();
    // object layouts: y places the object on line `ly`; tile / attributes symbolic where stated
    match layout {
      1 | 4 => { // two overlapping objects (X=20 beats X=22 where both are opaque); attributes of the first: plain / all set
        let a1: u8 = if layout == 1 { 0x00 } else { 0xf0 }; // 4: behind BG, Y flip, X flip, palette 1
        oam[0] = ly.wrapping_add(16); oam[1] = 20; oam[2] = 3; oam[3] = a1;
        oam[4] = ly.wrapping_add(16 - 3); oam[5] = 22; oam[6] = 5; oam[7] = 0x10;
      }
      3 => { // equal X: the lower OAM index wins; 8x16 rows with Y flip on the second
        oam[0] = ly.wrapping_add(16); oam[1] = 40; oam[2] = 7; oam[3] = 0x00;
        oam[4] = ly.wrapping_add(16 - 2); oam[5] = 40; oam[6] = 9; oam[7] = 0x50;
      }
      2 => { // eleven objects on the line: the 11th must not be drawn; two of the first ten are off-screen (X=0, X=168)
        let xs = [0u8, 168, 16, 32, 48, 64, 80, 96, 112, 128, 144];
        let mut i = 0;
        while i < 11 { oam[4 * i] = ly.wrapping_add(16); oam[4 * i + 1] = xs[i]; oam[4 * i + 2] = 1; oam[4 * i + 3] = 0; i += 1; }
      }
      _ => {}
    }
    // put the controller at the start of line `ly` (mode 2, dot 0) the way the schedule does
    v.current_line = ly; v.current_mode = 2; v.current_mode_dots = 0;
    v.find_current_line_sprites(&vram, &oam);
    let mut i = 0;
    // `cycles` machine cycles of the line: 20 of mode 2, then 4 pixels each (114 = the whole line)
    while i < cycles { let _ = v.run_clock_cycles(ClockCycles(4), &vram, &oam); i += 1; }
    let x: usize = kani::any();
    kani::assume(x < 160 && x < 4 * (cycles - 20));
    let got = v.get_writing_buffer()[ly as usize * 160 + x];
    let want = ref_pixel(&vram, &oam, lcdc | 0x81, bgp, obp0, obp1, scx, scy, wx, wy, x, ly);
    vassert!(got == want, "C15.line.pixel");
    vassert!(cycles < 114 || v.get_ly() == ly + 1 || ly == 143, "C15.line.advanced");
    kani::cover!(true, "reached");
    core::mem::forget(v);
  }
  macro_rules! lineh {
    ($name:ident, $lcdc:expr, $scx:expr, $scy:expr, $wx:expr, $wy:expr, $ly:expr, $layout:expr, $cycles:expr) => {
      #[kani::proof]
      #[kani::unwind(180)]
      #[kani::stub(crate::devices::video::lcd::LCD::new, vstub::stub_lcd_new)]
      fn $name() { line($lcdc, $scx, $scy, $wx, $wy, $ly, $layout, $cycles); }
    };
  }
  // quick: BG with scroll wrap + signed tile addressing + second map; window starting mid-line near the right edge; objects
  lineh!(c15_line_bg_scroll_signed, 0x08, 251, 7, 0, 0, 1, 0, 44);
  lineh!(c15_line_window_right_edge, 0x70, 3, 0, 163, 0, 8, 0, 114);
  lineh!(c15_line_objects_overlap, 0x12, 0, 0, 0, 0, 5, 1, 30);
  lineh!(c15_line_objects_flipped_behind_bg, 0x12, 0, 0, 0, 0, 5, 4, 30);
  lineh!(c15_line_eleven_objects, 0x12, 0, 0, 0, 0, 20, 2, 58);
  #[cfg(verif_thorough)]
  lineh!(c15_line_window_left, 0x30, 0, 0, 3, 2, 7, 0, 50);
  #[cfg(verif_thorough)]
  lineh!(c15_line_objects_8x16, 0x16, 0, 0, 0, 0, 9, 3, 36);
  #[cfg(verif_thorough)]
  lineh!(c15_line_objects_equal_x, 0x12, 0, 0, 0, 0, 5, 3, 36);

  #[kani::proof]
  #[kani::unwind(10)]
  #[kani::stub(crate::devices::video::lcd::LCD::new, vstub::stub_lcd_new)]
  fn c15_witness_must_fail() {
    let v = VideoState::new();
    let _ = tile::interleave(kani::any(), kani::any());
    core::mem::forget(v);
    assert!(false, "C15.witness");
  }
  // VERIF-END verif_c15
}
