#[cfg(kani)]
pub mod verif_video {
  use super::*;

  /// Closed-form schedule position of a (mode, dots, line) triple, if it is one the schedule visits.
  pub fn position(mode: u8, dots: usize, line: u8) -> Option<usize> {
    if dots % 4 != 0 { return None; }
    let l = line as usize;
    match mode {
      2 => if l < 144 && dots < 80 { Some(l * 456 + dots) } else { None },
      3 => if l < 144 && dots < 188 { Some(l * 456 + 80 + dots) } else { None },
      0 => if l < 144 && dots < 188 { Some(l * 456 + 268 + dots) } else { None },
      1 => if l >= 144 && l < 154 && dots < 456 { Some(l * 456 + dots) } else { None },
      _ => None,
    }
  }
  /// (mode, dots, line) at schedule position p (p a multiple of 4, below 70224).
  pub fn at(p: usize) -> (u8, usize, u8) {
    let line = p / 456;
    let x = p % 456;
    if line >= 144 { (1, x, line as u8) }
    else if x < 80 { (2, x, line as u8) }
    else if x < 268 { (3, x - 80, line as u8) }
    else { (0, x - 268, line as u8) }
  }

  /// Arbitrary VideoState at an arbitrary valid schedule position, with a pixel pipeline state consistent with it.
  pub fn any_state() -> (VideoState, usize) {
    let mut v = VideoState::new();
    let p: usize = kani::any();
    kani::assume(p < 70224 && p % 4 == 0);
    let (mode, dots, line) = at(p);
    v.current_mode = mode;
    v.current_mode_dots = dots;
    v.current_line = line;
    v.ly_compare = kani::any();
    v.interrupt_on_lyc = kani::any();
    v.interrupt_on_mode_0 = kani::any();
    v.interrupt_on_mode_1 = kani::any();
    v.interrupt_on_mode_2 = kani::any();
    v.scroll_x = kani::any();
    v.scroll_y = kani::any();
    v.window_x = kani::any();
    v.window_y = kani::any();
    v.window_enabled = kani::any();
    v.object_enabled = kani::any();
    v.bg_window_enabled = kani::any();
    v.current_tile_cache = kani::any();
    let tx: usize = kani::any();
    kani::assume(tx < 32);
    v.next_cached_tile_x = tx;
    v.current_obj_line_cache_pixel = 8 + if mode == 3 { if dots < 160 { dots } else { 160 } } else { 0 };
    v.current_window_line = if mode == 3 && v.window_enabled && line >= v.window_y { Some((line - v.window_y) as usize) } else { None };
    (v, p)
  }
  /// Scratch line the pixel writer draws into in schedule harnesses (the 23 040-byte frame buffers are not the subject there).
  pub static mut LINEBUF: [u8; 160] = [0xd1; 160];
  pub fn stub_line<'a>(_l: &'a mut lcd::LCD, _line: usize) -> &'a mut [u8] { unsafe { &mut *core::ptr::addr_of_mut!(LINEBUF) } }
  pub fn noop_sprites(_v: &mut VideoState, _vram: &Box<[u8]>, _oam: &Box<[u8]>) {}
  pub fn noop_tile(_v: &mut VideoState, _vram: &Box<[u8]>) {}
}

#[cfg(all(kani, verif_c14))]
mod verif_c14 {
  use super::*;
  use super::verif_video::*;
  use crate::vassert;
  use crate::verif::vstub;

  fn stat_expected(v_lyc: u8, e_lyc: bool, e0: bool, e1: bool, e2: bool, p0: usize, p1: usize) -> bool {
    let (m0, _d0, l0) = at(p0);
    let (m1, _d1, l1) = at(p1);
    let entered = m1 != m0;
    let mode_irq = entered && ((m1 == 0 && e0) || (m1 == 1 && e1) || (m1 == 2 && e2));
    let ly_changed = l1 != l0;
    let lyc_irq = ly_changed && l1 == v_lyc && e_lyc;
    mode_irq || lyc_irq
  }

  /// One machine cycle (4 clocks) from any valid position.
  #[kani::proof]
  #[kani::unwind(6)]
  #[kani::stub(crate::devices::video::lcd::LCD::new, vstub::stub_lcd_new)]
  #[kani::stub(crate::devices::video::VideoState::find_current_line_sprites, noop_sprites)]
  #[kani::stub(crate::devices::video::VideoState::cache_next_tile_row, noop_tile)]
  #[kani::stub(crate::devices::video::VideoState::cache_next_window_tile_row, noop_tile)]
  #[kani::stub(crate::devices::video::lcd::LCD::get_writing_buffer_line, stub_line)]
  fn c14_step() {
    let (mut v, p) = any_state();
    let vram: Box<[u8]> = vec![0u8; 0x2000].into_boxed_slice();
    let oam: Box<[u8]> = vec![0u8; 0xa0].into_boxed_slice();
    let (lyc, e_lyc, e0, e1, e2) = (v.ly_compare, v.interrupt_on_lyc, v.interrupt_on_mode_0, v.interrupt_on_mode_1, v.interrupt_on_mode_2);
    let f = v.run_clock_cycles(ClockCycles(4), &vram, &oam).as_u8();
    let p1 = (p + 4) % 70224;
    let (m1, d1, l1) = at(p1);
    vassert!(v.get_ly() == l1, "C14.step.ly");
    vassert!(v.get_current_mode() == m1, "C14.step.mode");
    vassert!(v.current_mode_dots == d1, "C14.step.dots");
    vassert!((f & 1 != 0) == (p1 == 144 * 456), "C14.step.vblank_exactly_at_line_144");
    vassert!((f & 2 != 0) == stat_expected(lyc, e_lyc, e0, e1, e2, p, p1), "C14.step.stat_request");
    vassert!(f & !3 == 0, "C14.step.no_other_request");
    let st = v.get_lcd_status();
    vassert!(st & 3 == m1, "C14.step.stat_mode_bits");
    vassert!((st & 4 != 0) == (l1 == lyc), "C14.step.stat_coincidence_bit");
    vassert!((st & 0x40 != 0) == e_lyc && (st & 0x20 != 0) == e2 && (st & 0x10 != 0) == e1 && (st & 0x08 != 0) == e0, "C14.step.stat_enable_bits");
    kani::cover!(p1 == 144 * 456, "reached");
    core::mem::forget(v);
  }

  /// Batches: one call with 4k clocks equals k reference steps (position, OR-ed requests, STAT).
  fn batch(kmax: usize, fixed: bool, lo: usize, hi: usize) {
    let (mut a, p) = any_state();
    kani::assume(p >= lo && p < hi);
    let vram: Box<[u8]> = vec![0u8; 0x2000].into_boxed_slice();
    let oam: Box<[u8]> = vec![0u8; 0xa0].into_boxed_slice();
    let (lyc, e_lyc, e0, e1, e2) = (a.ly_compare, a.interrupt_on_lyc, a.interrupt_on_mode_0, a.interrupt_on_mode_1, a.interrupt_on_mode_2);
    let k: usize = kani::any();
    kani::assume(k >= 1 && k <= kmax && (!fixed || k == kmax));
    let fa = a.run_clock_cycles(ClockCycles(4 * k), &vram, &oam).as_u8();
    let mut want_stat = false;
    let mut want_vblank = false;
    let mut q = p;
    let mut i = 0;
    while i < k {
      let q1 = (q + 4) % 70224;
      if q1 == 144 * 456 { want_vblank = true; }
      if stat_expected(lyc, e_lyc, e0, e1, e2, q, q1) { want_stat = true; }
      q = q1;
      i += 1;
    }
    let (m1, d1, l1) = at(q);
    vassert!(a.get_ly() == l1 && a.get_current_mode() == m1 && a.current_mode_dots == d1, "C14.batch.position");
    vassert!((fa & 1 != 0) == want_vblank, "C14.batch.vblank");
    vassert!((fa & 2 != 0) == want_stat, "C14.batch.stat_request");
    vassert!(a.get_lcd_status() & 7 == (m1 | if l1 == lyc { 4 } else { 0 }), "C14.batch.stat_bits");
    kani::cover!(k == kmax, "reached");
    core::mem::forget(a);
  }
  /// Two machine cycles in one call, from any position.
  #[kani::proof]
  #[kani::unwind(8)]
  #[kani::stub(crate::devices::video::lcd::LCD::new, vstub::stub_lcd_new)]
  #[kani::stub(crate::devices::video::VideoState::find_current_line_sprites, noop_sprites)]
  #[kani::stub(crate::devices::video::VideoState::cache_next_tile_row, noop_tile)]
  #[kani::stub(crate::devices::video::VideoState::cache_next_window_tile_row, noop_tile)]
  #[kani::stub(crate::devices::video::lcd::LCD::get_writing_buffer_line, stub_line)]
  fn c14_batch_2steps() { batch(2, true, 0, 70224); }
  /// A 24-cycle batch from the last-but-one machine cycle of VBlank across the frame wrap into line 0
  /// (start position concrete: a symbolic one did not finish in 30 min; enables, LYC and scroll registers stay symbolic).
  #[kani::proof]
  #[kani::unwind(30)]
  #[kani::stub(crate::devices::video::lcd::LCD::new, vstub::stub_lcd_new)]
  #[kani::stub(crate::devices::video::VideoState::find_current_line_sprites, noop_sprites)]
  #[kani::stub(crate::devices::video::VideoState::cache_next_tile_row, noop_tile)]
  #[kani::stub(crate::devices::video::VideoState::cache_next_window_tile_row, noop_tile)]
  #[kani::stub(crate::devices::video::lcd::LCD::get_writing_buffer_line, stub_line)]
  fn c14_batch_across_vblank_exit() { batch(24, true, 153 * 456 + 448, 153 * 456 + 452); }
  /// A 6-cycle batch across the line-143 -> 144 hand-over.
  #[kani::proof]
  #[kani::unwind(12)]
  #[kani::stub(crate::devices::video::lcd::LCD::new, vstub::stub_lcd_new)]
  #[kani::stub(crate::devices::video::VideoState::find_current_line_sprites, noop_sprites)]
  #[kani::stub(crate::devices::video::VideoState::cache_next_tile_row, noop_tile)]
  #[kani::stub(crate::devices::video::VideoState::cache_next_window_tile_row, noop_tile)]
  #[kani::stub(crate::devices::video::lcd::LCD::get_writing_buffer_line, stub_line)]
  fn c14_batch_into_vblank() { batch(6, true, 143 * 456 + 444, 143 * 456 + 448); }
  #[cfg(verif_thorough)]
  #[kani::proof]
  #[kani::unwind(12)]
  #[kani::stub(crate::devices::video::lcd::LCD::new, vstub::stub_lcd_new)]
  #[kani::stub(crate::devices::video::VideoState::find_current_line_sprites, noop_sprites)]
  #[kani::stub(crate::devices::video::VideoState::cache_next_tile_row, noop_tile)]
  #[kani::stub(crate::devices::video::VideoState::cache_next_window_tile_row, noop_tile)]
  #[kani::stub(crate::devices::video::lcd::LCD::get_writing_buffer_line, stub_line)]
  fn c14_batch8() { batch(8, false, 0, 70224); }

  /// Writing STAT or LYC raises the request when it makes LY == LYC visible with the enable set; power-on state is on the schedule.
  #[kani::proof]
  #[kani::unwind(6)]
  #[kani::stub(crate::devices::video::lcd::LCD::new, vstub::stub_lcd_new)]
  fn c14_register_writes() {
    let (mut v, _p) = any_state();
    let val: u8 = kani::any();
    if kani::any() {
      let f = v.set_ly_compare(val).as_u8();
      vassert!(v.get_ly_compare() == val, "C14.lyc.readback");
      vassert!((f & 2 != 0) == (v.interrupt_on_lyc && val == v.get_ly()) && f & !2 == 0, "C14.lyc.write_request");
    } else {
      let f = v.set_lcd_status(val).as_u8();
      vassert!(v.get_lcd_status() & 0x78 == val & 0x78, "C14.stat.enable_readback");
      vassert!(f & !2 == 0, "C14.stat.write_request_kind");
    }
    let n = VideoState::new();
    vassert!(position(n.get_current_mode(), n.current_mode_dots, n.get_ly()).is_some(), "C14.power_on_position_valid");
    kani::cover!(true, "reached");
    core::mem::forget(v); core::mem::forget(n);
  }

  #[kani::proof]
  #[kani::unwind(6)]
  #[kani::stub(crate::devices::video::lcd::LCD::new, vstub::stub_lcd_new)]
  #[kani::stub(crate::devices::video::VideoState::find_current_line_sprites, noop_sprites)]
  #[kani::stub(crate::devices::video::VideoState::cache_next_tile_row, noop_tile)]
  #[kani::stub(crate::devices::video::VideoState::cache_next_window_tile_row, noop_tile)]
  #[kani::stub(crate::devices::video::lcd::LCD::get_writing_buffer_line, stub_line)]
  fn c14_witness_must_fail() {
    let (mut v, _p) = any_state();
    let vram: Box<[u8]> = vec![0u8; 0x2000].into_boxed_slice();
    let oam: Box<[u8]> = vec![0u8; 0xa0].into_boxed_slice();
    let _ = v.run_clock_cycles(ClockCycles(4), &vram, &oam);
    assert!(false, "C14.witness");
  }
  // VERIF-END verif_c14
}
