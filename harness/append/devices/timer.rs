#[cfg(all(kani, verif_c13))]
mod verif_c13 {
  use super::*;
  use crate::timing::ClockCycles;
  use crate::vassert;

  /// Per-clock reference model written from the property statement / Pan Docs.
  #[derive(Clone, Copy)]
  struct RefTimer { phase: u16, tima: u8, tma: u8, tac: u8 }
  impl RefTimer {
    fn bit(tac: u8) -> u16 { match tac & 3 { 0 => 1 << 9, 1 => 1 << 3, 2 => 1 << 5, _ => 1 << 7 } }
    fn line(&self) -> bool { (self.tac & 4 != 0) && (self.phase & Self::bit(self.tac) != 0) }
    fn tick(&mut self) -> bool {
      if self.tima == 0xff { self.tima = self.tma; true } else { self.tima += 1; false }
    }
    fn clock(&mut self) -> bool {
      let before = self.line();
      self.phase = self.phase.wrapping_add(1);
      let after = self.line();
      if before && !after { self.tick() } else { false }
    }
    fn write_tac(&mut self, v: u8) -> bool {
      let before = self.line();
      self.tac = v;
      let after = self.line();
      if before && !after { self.tick() } else { false }
    }
  }

  /// Arbitrary timer in a state reachable through the public API: either the
  /// power-on state (masks 0) or masks consistent with the last TAC write.
  fn any_timer() -> (Timer, RefTimer) {
    let phase: u16 = kani::any();
    let tima: u8 = kani::any();
    let tma: u8 = kani::any();
    let tac: u8 = kani::any();
    let fresh: bool = kani::any();
    let mut t = Timer::new();
    t.cycle_count = phase as u32;
    t.counter = tima;
    t.modulo = tma;
    if fresh {
      // never written: control 0, masks 0 (timer disabled)
      (t, RefTimer { phase, tima, tma, tac: 0 })
    } else {
      t.control_value = tac;
      t.enabled_mask = if tac & 4 != 0 { 0xffff } else { 0 };
      t.timer_clock_mask = RefTimer::bit(tac) as u32;
      (t, RefTimer { phase, tima, tma, tac })
    }
  }

  fn same(t: &Timer, r: &RefTimer) -> bool {
    t.cycle_count == r.phase as u32 && t.counter == r.tima && t.modulo == r.tma
  }

  #[kani::proof]
  #[kani::unwind(3)]
  fn c13_step1() {
    let (mut t, mut r) = any_timer();
    let f = t.run_cycles(ClockCycles(1));
    let rf = r.clock();
    vassert!(t.cycle_count == r.phase as u32, "C13.step.phase");
    vassert!(t.counter == r.tima, "C13.step.tima");
    vassert!(t.modulo == r.tma, "C13.step.tma");
    vassert!((f.as_u8() != 0) == rf && (f.as_u8() & !4) == 0, "C13.step.irq");
    vassert!(t.get_divider() == (r.phase >> 8) as u8, "C13.step.div");
    kani::cover!(true, "reached");
  }

  fn run_n_bound(bound: usize) {
    let (mut t, mut r) = any_timer();
    let n: usize = kani::any();
    kani::assume(n <= bound);
    let f = t.run_cycles(ClockCycles(n));
    let mut rf = false;
    let mut i = 0;
    while i < n { rf |= r.clock(); i += 1; }
    vassert!(t.cycle_count == r.phase as u32, "C13.run.phase");
    vassert!(t.counter == r.tima, "C13.run.tima");
    vassert!((f.as_u8() != 0) == rf && (f.as_u8() & !4) == 0, "C13.run.irq");
    vassert!(t.get_divider() == (r.phase >> 8) as u8, "C13.run.div");
    vassert!(t.get_counter() == r.tima && t.get_modulo() == r.tma, "C13.run.getters");
    kani::cover!(n == bound, "reached");
  }

  #[kani::proof]
  #[kani::unwind(34)]
  fn c13_run_n32() { run_n_bound(32); }

  #[cfg(verif_thorough)]
  #[kani::proof]
  #[kani::unwind(98)]
  fn c13_run_n96() { run_n_bound(96); }

  /// Disabled timer: fast path for any batch size below 2^24 clocks.
  #[kani::proof]
  #[kani::unwind(3)]
  fn c13_disabled_fast() {
    let (mut t, r) = any_timer();
    kani::assume(r.tac & 4 == 0);
    let n: usize = kani::any();
    kani::assume(n < (1 << 24));
    let f = t.run_cycles(ClockCycles(n));
    vassert!(t.cycle_count == ((r.phase as usize + n) & 0xffff) as u32, "C13.fast.phase");
    vassert!(t.counter == r.tima && t.modulo == r.tma, "C13.fast.tima");
    vassert!(f.as_u8() == 0, "C13.fast.irq");
    vassert!(t.get_divider() == (((r.phase as usize + n) >> 8) & 0xff) as u8, "C13.fast.div");
    kani::cover!(true, "reached");
  }

  fn batch_bound(bound: usize) {
    let (mut t1, r) = any_timer();
    let mut t2 = Timer::new();
    t2.cycle_count = t1.cycle_count; t2.counter = t1.counter; t2.modulo = t1.modulo;
    t2.enabled_mask = t1.enabled_mask; t2.timer_clock_mask = t1.timer_clock_mask; t2.control_value = t1.control_value;
    let a: usize = kani::any();
    let b: usize = kani::any();
    kani::assume(a <= bound && b <= bound && a + b <= bound);
    let fa = t1.run_cycles(ClockCycles(a));
    let fb = t1.run_cycles(ClockCycles(b));
    let fab = t2.run_cycles(ClockCycles(a + b));
    vassert!(t1.cycle_count == t2.cycle_count, "C13.batch.phase");
    vassert!(t1.counter == t2.counter, "C13.batch.tima");
    vassert!((fa.as_u8() | fb.as_u8()) == fab.as_u8(), "C13.batch.irq");
    vassert!(t1.get_divider() == t2.get_divider(), "C13.batch.div");
    let _ = r;
    kani::cover!(a > 0 && b > 0, "reached");
  }

  #[kani::proof]
  #[kani::unwind(18)]
  fn c13_batch16() { batch_bound(16); }

  #[cfg(verif_thorough)]
  #[kani::proof]
  #[kani::unwind(50)]
  fn c13_batch48() { batch_bound(48); }

  /// TAC write: falling edge of the (enable AND selected bit) line ticks TIMA.
  #[kani::proof]
  #[kani::unwind(3)]
  fn c13_tac_write() {
    let (mut t, mut r) = any_timer();
    let v: u8 = kani::any();
    let f = t.set_timer_control(v);
    let rf = r.write_tac(v);
    vassert!(t.counter == r.tima, "C13.tac.tima");
    vassert!((f.as_u8() != 0) == rf && (f.as_u8() & !4) == 0, "C13.tac.irq");
    vassert!(t.cycle_count == r.phase as u32, "C13.tac.phase");
    vassert!(t.get_timer_control() & 7 == v & 7, "C13.tac.readback");
    // the state after the write behaves like the reference for the next clock
    let f2 = t.run_cycles(ClockCycles(1));
    let rf2 = r.clock();
    vassert!(same(&t, &r), "C13.tac.then_step.state");
    vassert!((f2.as_u8() != 0) == rf2, "C13.tac.then_step.irq");
    kani::cover!(rf, "reached");
  }

  /// DIV write, TIMA/TMA writes.
  #[kani::proof]
  #[kani::unwind(3)]
  fn c13_reg_writes() {
    let (mut t, r) = any_timer();
    let v: u8 = kani::any();
    match kani::any::<u8>() % 3 {
      0 => {
        t.reset_divider();
        vassert!(t.get_divider() == 0, "C13.div.reset_reads_zero");
        vassert!(t.cycle_count & 0xffff == 0, "C13.div.reset_phase");
        // TIMA after a DIV write is left unconstrained (statement does not fix it)
      }
      1 => {
        t.set_counter(v);
        vassert!(t.get_counter() == v && t.cycle_count == r.phase as u32 && t.modulo == r.tma, "C13.tima.write");
      }
      _ => {
        t.set_modulo(v);
        vassert!(t.get_modulo() == v && t.cycle_count == r.phase as u32 && t.counter == r.tima, "C13.tma.write");
      }
    }
    kani::cover!(true, "reached");
  }

  /// Direct period query for the two short rates: in any window of exactly one
  /// period TIMA advances exactly once (one request at most, iff it was 0xff).
  fn period(rate: u8, clocks: usize) {
    let (mut t, r) = any_timer();
    kani::assume(r.tac & 7 == (4 | rate));
    let f = t.run_cycles(ClockCycles(clocks));
    let expect = if r.tima == 0xff { r.tma } else { r.tima + 1 };
    vassert!(t.counter == expect, "C13.period.tima");
    vassert!((f.as_u8() != 0) == (r.tima == 0xff), "C13.period.irq");
    kani::cover!(true, "reached");
  }
  #[kani::proof]
  #[kani::unwind(18)]
  fn c13_period16() { period(1, 16); }
  #[kani::proof]
  #[kani::unwind(66)]
  fn c13_period64() { period(2, 64); }
  #[cfg(verif_thorough)]
  #[kani::proof]
  #[kani::unwind(258)]
  fn c13_period256() { period(3, 256); }

  /// Vacuity witness: must FAIL.
  #[kani::proof]
  #[kani::unwind(3)]
  fn c13_witness_must_fail() {
    let (mut t, _r) = any_timer();
    let _ = t.run_cycles(ClockCycles(1));
    assert!(false, "C13.witness");
  }
  // VERIF-END verif_c13
}
