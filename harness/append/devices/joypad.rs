#[cfg(all(kani, verif_c17))]
mod verif_c17 {
  use super::*;
  use crate::vassert;

  /// Reference: the button matrix as the statement describes it.
  #[derive(Clone, Copy)]
  struct RefPad { action: u8, direction: u8, sel_action: bool, sel_direction: bool, latch: bool }
  impl RefPad {
    fn lines(&self) -> u8 {
      let mut low = 0u8; // bit set = line pulled low
      if self.sel_direction { low |= self.direction; }
      if self.sel_action { low |= self.action; }
      !low & 0x0f
    }
    fn p1(&self) -> u8 {
      // select bits echo what was written: 0 = selected
      let mut v = self.lines();
      if !self.sel_direction { v |= 0x10; }
      if !self.sel_action { v |= 0x20; }
      v
    }
  }

  fn any_pad() -> (Joypad, RefPad) {
    let action: u8 = kani::any::<u8>() & 0x0f;
    let direction: u8 = kani::any::<u8>() & 0x0f;
    let sel_action: bool = kani::any();
    let sel_direction: bool = kani::any();
    let latch: bool = kani::any();
    let mut j = Joypad::new();
    j.action_state = action;
    j.direction_state = direction;
    j.select_action = sel_action;
    j.select_direction = sel_direction;
    if latch { j.next_interrupt = InterruptFlag::joypad(); }
    (j, RefPad { action, direction, sel_action, sel_direction, latch })
  }

  fn button(n: u8) -> (Button, bool, u8) {
    // (button, is_action, bit)
    match n & 7 {
      0 => (Button::A, true, 1), 1 => (Button::B, true, 2), 2 => (Button::Select, true, 4), 3 => (Button::Start, true, 8),
      4 => (Button::Right, false, 1), 5 => (Button::Left, false, 2), 6 => (Button::Up, false, 4), _ => (Button::Down, false, 8),
    }
  }

  fn check_after(j: &mut Joypad, before: &RefPad, after: &RefPad, what: u8) {
    let fell = before.lines() & !after.lines() & 0x0f != 0;
    let v = j.get_value();
    match what {
      0 => { vassert!(v & 0x3f == after.p1(), "C17.press.p1"); }
      1 => { vassert!(v & 0x3f == after.p1(), "C17.release.p1"); }
      _ => { vassert!(v & 0x3f == after.p1(), "C17.select.p1"); }
    }
    let first = j.get_interrupt().as_u8();
    let second = j.get_interrupt().as_u8();
    let want = fell || before.latch;
    match what {
      0 => { vassert!((first == 0x10) == want && (first == 0 || first == 0x10), "C17.press.irq"); }
      1 => { vassert!((first == 0x10) == want && (first == 0 || first == 0x10), "C17.release.irq"); }
      _ => { vassert!((first == 0x10) == want && (first == 0 || first == 0x10), "C17.select.irq"); }
    }
    vassert!(second == 0, "C17.irq.reported_once");
  }

  #[kani::proof]
  #[kani::unwind(3)]
  fn c17_press() {
    let (mut j, r) = any_pad();
    vassert!(j.get_value() & 0x3f == r.p1(), "C17.state.p1");
    let (b, is_action, bit) = button(kani::any());
    j.press_button(b);
    let mut r2 = r;
    if is_action { r2.action |= bit; } else { r2.direction |= bit; }
    check_after(&mut j, &r, &r2, 0);
    kani::cover!(r.lines() != r2.lines(), "reached");
  }

  #[kani::proof]
  #[kani::unwind(3)]
  fn c17_release() {
    let (mut j, r) = any_pad();
    let (b, is_action, bit) = button(kani::any());
    j.release_button(b);
    let mut r2 = r;
    if is_action { r2.action &= !bit; } else { r2.direction &= !bit; }
    check_after(&mut j, &r, &r2, 1);
    kani::cover!(r.lines() != r2.lines(), "reached");
  }

  #[kani::proof]
  #[kani::unwind(3)]
  fn c17_select_write() {
    let (mut j, r) = any_pad();
    let v: u8 = kani::any();
    j.set_value(v);
    let mut r2 = r;
    r2.sel_direction = v & 0x10 == 0;
    r2.sel_action = v & 0x20 == 0;
    check_after(&mut j, &r, &r2, 2);
    kani::cover!(r.lines() & !r2.lines() != 0 && !r.lines() & r2.lines() != 0, "reached");
  }

  /// Power-on state: nothing selected, nothing pressed, all lines high.
  #[kani::proof]
  #[kani::unwind(3)]
  fn c17_power_on() {
    let mut j = Joypad::new();
    vassert!(j.get_value() & 0x3f == 0x3f, "C17.new.p1");
    vassert!(j.get_interrupt().as_u8() == 0, "C17.new.irq");
    kani::cover!(true, "reached");
  }

  #[kani::proof]
  #[kani::unwind(3)]
  fn c17_witness_must_fail() {
    let (mut j, _r) = any_pad();
    j.set_value(kani::any());
    let _ = j.get_interrupt();
    assert!(false, "C17.witness");
  }
  // VERIF-END verif_c17
}
