#[cfg(all(kani, verif_c18))]
mod verif_c18 {
  use super::*;
  use crate::vassert;
  use crate::verif::vstub;

  /// The port itself: SC write with bit 7 emits the byte held in SB, nothing else does.
  #[kani::proof]
  #[kani::unwind(10)]
  #[kani::stub(<std::io::Stdout as std::io::Write>::write, vstub::stub_stdout_write)]
  #[kani::stub(<std::io::Stdout as std::io::Write>::flush, vstub::stub_stdout_flush)]
  #[kani::stub(std::io::_print, vstub::stub_print)]
  #[kani::stub(<std::io::Stdout as std::io::Write>::write_all, vstub::stub_stdout_write_all)]
  #[kani::stub(<std::io::StdoutLock<'_> as std::io::Write>::write, vstub::stub_lock_write)]
  #[kani::stub(<std::io::StdoutLock<'_> as std::io::Write>::write_all, vstub::stub_lock_write_all)]
  #[kani::stub(<std::io::StdoutLock<'_> as std::io::Write>::flush, vstub::stub_lock_flush)]
  fn c18_port() {
    let mut s = SerialComms::new();
    let d: u8 = kani::any();
    let c: u8 = kani::any();
    vstub::out_reset();
    s.set_data(d);
    let n0 = vstub::out_len();
    s.set_control(c);
    let n1 = vstub::out_len();
    let b0 = vstub::out_byte(0);
    vstub::out_finish();
    vassert!(n0 == 0, "C18.port.data_write_emits_nothing");
    if c & 0x80 != 0 {
      vassert!(n1 == 1, "C18.port.emits_exactly_one_byte");
      vassert!(b0 == d, "C18.port.emits_latched_byte");
    } else {
      vassert!(n1 == 0, "C18.port.bit7_clear_emits_nothing");
    }
    vassert!(s.get_data() == d, "C18.port.latch_kept");
    kani::cover!(c & 0x80 != 0, "reached");
  }

  #[kani::proof]
  #[kani::unwind(10)]
  #[kani::stub(<std::io::Stdout as std::io::Write>::write, vstub::stub_stdout_write)]
  #[kani::stub(<std::io::Stdout as std::io::Write>::flush, vstub::stub_stdout_flush)]
  fn c18_witness_must_fail() {
    let mut s = SerialComms::new();
    s.set_data(kani::any());
    s.set_control(kani::any());
    assert!(false, "C18.witness");
  }
  // VERIF-END verif_c18
}
