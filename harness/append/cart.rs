#[cfg(kani)]
impl Header {
  /// Header with the three fields the loader consults; everything else zero.
  pub fn verif_with(cart_type: u8, rom_size: u8, ram_size: u8) -> Header {
    let mut h: Header = unsafe { std::mem::zeroed() };
    h.cart_type = cart_type;
    h.rom_size = rom_size;
    h.ram_size = ram_size;
    h
  }
  pub fn verif_from_bytes(raw: [u8; 80]) -> Header { unsafe { core::mem::transmute(raw) } }
}

/// Reference header tables (Pan Docs "The Cartridge Header").
#[cfg(kani)]
pub fn verif_ref_rom_banks(code: u8) -> usize {
  match code { 0..=8 => 2usize << code, 0x52 => 72, 0x53 => 80, 0x54 => 96, _ => 2 }
}
#[cfg(kani)]
pub fn verif_ref_ram_bytes(code: u8) -> usize {
  match code { 1 => 2048, 2 => 8192, 3 => 32768, 4 => 131072, 5 => 65536, _ => 0 }
}
/// 0 = ROM only, 1 = MBC1, 3 = MBC3, 255 = unsupported
#[cfg(kani)]
pub fn verif_ref_kind(cart_type: u8) -> u8 {
  match cart_type { 0 => 0, 1 | 2 | 3 => 1, 0x11 | 0x12 | 0x13 => 3, _ => 255 }
}

#[cfg(all(kani, verif_c19))]
mod verif_c19 {
  use super::*;
  use crate::vassert;

  pub fn ref_checksum_ok(raw: &[u8; 80]) -> bool {
    // header bytes 0x134..=0x14C are raw[0x34..=0x4c]; checksum byte 0x14D is raw[0x4d]
    let mut x: u8 = 0;
    let mut i = 0x34;
    while i <= 0x4c { x = x.wrapping_sub(raw[i]).wrapping_sub(1); i += 1; }
    x == raw[0x4d]
  }

  #[kani::proof]
  #[kani::unwind(30)]
  fn c19_checksum() {
    let raw: [u8; 80] = kani::any();
    let h = Header::verif_from_bytes(raw);
    vassert!(h.valid_checksum() == ref_checksum_ok(&raw), "C19.checksum");
    kani::cover!(ref_checksum_ok(&raw), "reached");
  }

  #[kani::proof]
  #[kani::unwind(4)]
  fn c19_size_tables() {
    let raw: [u8; 80] = kani::any();
    let h = Header::verif_from_bytes(raw);
    let rom_code = raw[0x48];
    let ram_code = raw[0x49];
    vassert!(h.get_rom_bank_count() == verif_ref_rom_banks(rom_code), "C19.table.rom_banks");
    vassert!(h.get_rom_size_bytes() == verif_ref_rom_banks(rom_code) * 16384, "C19.table.rom_bytes");
    vassert!(h.get_ram_size_bytes() == verif_ref_ram_bytes(ram_code), "C19.table.ram_bytes");
    kani::cover!(rom_code == 8, "reached");
  }

  /// Supported controller types build the matching controller (observed through its protocol).
  #[kani::proof]
  #[kani::unwind(4)]
  fn c19_cart_kind() {
    let t: u8 = kani::any();
    let kind = verif_ref_kind(t);
    kani::assume(kind != 255);
    let h = Header::verif_with(t, 0, 0);
    let mut c = h.create_cart_state();
    // power-on: bank 1 / RAM bank 0 for every type
    vassert!(c.get_rom_bank() == 1 && c.get_ram_bank() == 0, "C19.kind.power_on");
    c.write_rom(0x2000, 0x45);
    let b = c.get_rom_bank();
    match kind {
      0 => { vassert!(b == 1, "C19.kind.rom_only"); }
      1 => { vassert!(b == 0x05, "C19.kind.mbc1_5bit"); }
      _ => { vassert!(b == 0x45, "C19.kind.mbc3_7bit"); }
    }
    kani::cover!(kind == 3, "reached");
  }

  /// Unsupported types never yield a controller: construction does not return.
  #[kani::proof]
  #[kani::unwind(4)]
  #[kani::should_panic]
  fn c19_unsupported_type_terminates() {
    let t: u8 = kani::any();
    kani::assume(verif_ref_kind(t) == 255);
    let h = Header::verif_with(t, 0, 0);
    let _c = h.create_cart_state();
    // reaching this point means an unsupported type was accepted
  }
  // VERIF-END verif_c19
}
