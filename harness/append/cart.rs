#[cfg(kani)]
impl Header {
  /// Header with the three fields the loader consults; everything else zero.
  pub fn verif_with(cart_type: u8, rom_size: u8, ram_size: u8) -> Header {
    let mut h: Header = unsafe { std::mem::zeroed() };
    h.cart_type = cart_type;
    h.rom_size = rom_size;
    h.ram_size = ram_size;
    h
  }
  pub fn verif_from_bytes(raw: [u8; 80]) -> Header { unsafe { core::mem::transmute(raw) } }
}

/// Reference header tables (Pan Docs "The Cartridge Header").
#[cfg(kani)]
pub fn verif_ref_rom_banks(code: u8) -> usize {
  match code { 0..=8 => 2usize << code, 0x52 => 72, 0x53 => 80, 0x54 => 96, _ => 2 }
}
#[cfg(kani)]
pub fn verif_ref_ram_bytes(code: u8) -> usize {
  match code { 1 => 2048, 2 => 8192, 3 => 32768, 4 => 131072, 5 => 65536, _ => 0 }
}
/// 0 = ROM only, 1 = MBC1, 3 = MBC3, 255 = unsupported
#[cfg(kani)]
pub fn verif_ref_kind(cart_type: u8) -> u8 {
  match cart_type { 0 => 0, 1 | 2 | 3 => 1, 0x11 | 0x12 | 0x13 => 3, _ => 255 }
}
