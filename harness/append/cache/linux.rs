#[cfg(kani)]
impl ExecutableMemory {
  /// Plain heap area instead of an `mmap` (Kani cannot model the FFI call).
  pub fn verif_with(size: usize) -> Self { Self { memory: Some(vec![0u8; size].into_boxed_slice()) } }
}
#[cfg(kani)]
pub fn verif_apply_protection_noop(_address: *mut (), _size: usize, _protection: i32) {}
