#[cfg(kani)]
impl CodeCache {
  /// Under Kani: an empty cache over a small heap area (no prologue written).
  /// In the native replay build: the real `CodeCache::new()` (real mmap).
  #[cfg(not(verif_playback))]
  pub fn verif_new(area: usize) -> Self {
    Self { exec_memory: ExecutableMemory::verif_with(area), code_blocks: CachedBlocks::new(), write_cursor: 0, prologue_location: 0, epilogue_location: 0 }
  }
  #[cfg(verif_playback)]
  pub fn verif_new(_area: usize) -> Self { CodeCache::new() }
  pub fn verif_area_len(&self) -> usize { self.exec_memory.get_memory_area().len() }
  pub fn verif_set_cursor(&mut self, c: usize) { self.write_cursor = c; }
  pub fn verif_cursor(&self) -> usize { self.write_cursor }
}

#[cfg(all(kani, verif_c18))]
mod verif_c18 {
  use super::*;
  use crate::vassert;
  use crate::verif::vstub;
  use crate::cart::Header;

  fn stub_encode_op(_e: &Emitter, _op: crate::decoder::ops::Op, _inc: usize, exec: &mut [u8]) -> usize {
    let n: usize = kani::any();
    kani::assume(n >= 1 && n <= 64 && n <= exec.len());
    n
  }
  /// Serves the same four bytes the harness pokes into ROM from a small constant array
  /// (reads of a large heap buffer are not constant-folded, and a symbolic opcode in `decode` does not finish).
  static CODE: [u8; 4] = [0x00, 0xc3, 0x00, 0x00];
  fn stub_segment(_c: &CodeCache, ip: usize, _m: *const MemoryAreas) -> &'static [u8] { &CODE[ip..] }
  fn stub_encode_epilogue(_e: &Emitter, exec: &mut [u8]) -> usize {
    kani::assume(exec.len() >= 3);
    3
  }

  /// Translating a block writes nothing to standard output, wherever the write
  /// cursor stands in the arena (including its last 4 KiB).
  #[kani::proof]
  #[kani::unwind(8)]
  #[kani::stub(crate::system::get_rom_buffer, vstub::stub_get_rom_buffer)]
  #[kani::stub(crate::mem::create_buffer, vstub::stub_create_buffer)]
  #[kani::stub(crate::devices::video::lcd::LCD::new, vstub::stub_lcd_new)]
  #[kani::stub(crate::cache::linux::apply_protection, crate::cache::linux::verif_apply_protection_noop)]
  #[kani::stub(<std::io::Stdout as std::io::Write>::write, vstub::stub_stdout_write)]
  #[kani::stub(<std::io::Stdout as std::io::Write>::flush, vstub::stub_stdout_flush)]
  #[kani::stub(std::io::_print, vstub::stub_print)]
  #[kani::stub(crate::cache::CodeCache::get_executable_memory_segment, stub_segment)]
  #[kani::stub(crate::emitter::x86_64::Emitter::encode_op, stub_encode_op)]
  #[kani::stub(crate::emitter::x86_64::Emitter::encode_epilogue, stub_encode_epilogue)]
  fn c18_translate_is_quiet() {
    let h = Header::verif_with(0, 0, 0);
    let mut m = crate::mem::verif_areas(&h);
    m.rom[0] = 0x00; // NOP
    m.rom[1] = 0xc3; m.rom[2] = 0x00; m.rom[3] = 0x00; // JP 0x0000
    let mut c = CodeCache::verif_new(0x3000);
    let back: usize = kani::any();
    // the band just above the 4 KiB threshold is excluded so that the verdict does not depend on the
    // exact number of bytes emitted (the emitter is cut to "writes 1..=64 bytes" here; it is C01's subject)
    kani::assume(back >= 0x200 && back <= 0x2800 && !(back > 0x1000 && back < 0x1100));
    let len = c.verif_area_len();
    c.verif_set_cursor(len - back);
    vstub::out_reset();
    let _off = c.translate_code_block(&m.rom, 0, m.as_ptr());
    let n = vstub::out_len();
    vstub::out_finish();
    vassert!(n == 0, "C18.translate.writes_nothing_to_stdout");
    kani::cover!(len - c.verif_cursor() < 0x1000, "reached");
    core::mem::forget(m);
    core::mem::forget(c);
  }
  // VERIF-END verif_c18
}
