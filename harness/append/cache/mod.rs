#[cfg(kani)]
impl CodeCache {
  /// Under Kani: an empty cache over a small heap area (no prologue written).
  /// In the native replay build: the real `CodeCache::new()` (real mmap).
  #[cfg(not(verif_playback))]
  pub fn verif_new(area: usize) -> Self {
    Self { exec_memory: ExecutableMemory::verif_with(area), code_blocks: CachedBlocks::new(), write_cursor: 0, prologue_location: 0, epilogue_location: 0 }
  }
  #[cfg(verif_playback)]
  pub fn verif_new(_area: usize) -> Self { CodeCache::new() }
  pub fn verif_area_len(&self) -> usize { self.exec_memory.get_memory_area().len() }
  pub fn verif_set_cursor(&mut self, c: usize) { self.write_cursor = c; }
  pub fn verif_cursor(&self) -> usize { self.write_cursor }
}

#[cfg(all(kani, verif_c18))]
mod verif_c18 {
  use super::*;
  use crate::vassert;
  use crate::verif::vstub;
  use crate::cart::Header;

  fn stub_encode_op(_e: &Emitter, _op: crate::decoder::ops::Op, _inc: usize, exec: &mut [u8]) -> usize {
    let n: usize = kani::any();
    kani::assume(n >= 1 && n <= 64 && n <= exec.len());
    n
  }
  /// Serves the same four bytes the harness pokes into ROM from a small constant array
  /// (reads of a large heap buffer are not constant-folded, and a symbolic opcode in `decode` does not finish).
  static CODE: [u8; 4] = [0x00, 0xc3, 0x00, 0x00];
  fn stub_segment(_c: &CodeCache, ip: usize, _m: *const MemoryAreas) -> &'static [u8] { &CODE[ip..] }
  fn stub_encode_epilogue(_e: &Emitter, exec: &mut [u8]) -> usize {
    kani::assume(exec.len() >= 3);
    3
  }

  /// Translating a block writes nothing to standard output, wherever the write
  /// cursor stands in the arena (including its last 4 KiB).
  #[kani::proof]
  #[kani::unwind(8)]
  #[kani::stub(crate::system::get_rom_buffer, vstub::stub_get_rom_buffer)]
  #[kani::stub(crate::mem::create_buffer, vstub::stub_create_buffer)]
  #[kani::stub(crate::devices::video::lcd::LCD::new, vstub::stub_lcd_new)]
  #[kani::stub(crate::cache::linux::apply_protection, crate::cache::linux::verif_apply_protection_noop)]
  #[kani::stub(<std::io::Stdout as std::io::Write>::write, vstub::stub_stdout_write)]
  #[kani::stub(<std::io::Stdout as std::io::Write>::flush, vstub::stub_stdout_flush)]
  #[kani::stub(std::io::_print, vstub::stub_print)]
  #[kani::stub(crate::cache::CodeCache::get_executable_memory_segment, stub_segment)]
  #[kani::stub(crate::emitter::x86_64::Emitter::encode_op, stub_encode_op)]
  #[kani::stub(crate::emitter::x86_64::Emitter::encode_epilogue, stub_encode_epilogue)]
  fn c18_translate_is_quiet() {
    let h = Header::verif_with(0, 0, 0);
    let mut m = crate::mem::verif_areas(&h);
    m.rom[0] = 0x00; // NOP
    m.rom[1] = 0xc3; m.rom[2] = 0x00; m.rom[3] = 0x00; // JP 0x0000
    let mut c = CodeCache::verif_new(0x3000);
    let back: usize = kani::any();
    // the band just above the 4 KiB threshold is excluded so that the verdict does not depend on the
    // exact number of bytes emitted (the emitter is cut to "writes 1..=64 bytes" here; it is C01's subject)
    kani::assume(back >= 0x200 && back <= 0x2800 && !(back > 0x1000 && back < 0x1100));
    let len = c.verif_area_len();
    c.verif_set_cursor(len - back);
    vstub::out_reset();
    let _off = c.translate_code_block(&m.rom, 0, m.as_ptr());
    let n = vstub::out_len();
    vstub::out_finish();
    vassert!(n == 0, "C18.translate.writes_nothing_to_stdout");
    kani::cover!(len - c.verif_cursor() < 0x1000, "reached");
    core::mem::forget(m);
    core::mem::forget(c);
  }
  // VERIF-END verif_c18
}

#[cfg(kani)]
impl CodeCache {
  pub fn verif_rom_high_bank(&self) -> u16 { self.code_blocks.verif_rom_high_bank() }
  pub fn verif_set_rom_high_bank(&mut self, b: u16) { self.code_blocks.verif_set_rom_high_bank(b); }
}

/// Monitors that replace the three cache entry points in the C03/C04/C09 glue harnesses.
#[cfg(kani)]
pub mod verif_monitor {
  use super::*;
  pub static mut EXPECTED_BANK: usize = 0x5a5a_0808_0808;
  pub static mut TAG_OK: bool = false;
  pub static mut LOOKUPS: usize = 0x5a5a_0909_0909;
  pub static mut MEM: *mut MemoryAreas = 16usize as *mut MemoryAreas;
  pub static mut WRITE_ADDR: u16 = 0x1111;
  pub static mut WRITE_VAL: u8 = 0x22;
  pub static mut NEXT_IP: u32 = 0x3333_3333;
  pub static mut ADD_CYCLES: u32 = 0x4444_4444;
  pub static mut STATUS: u8 = 0x55;
  pub static mut ENTERED_CACHE: bool = true;
  pub static mut ENTERED_INTERP: bool = true;

  fn check_tag(c: &CodeCache, ip: usize) {
    unsafe {
      LOOKUPS += 1;
      ENTERED_CACHE = true;
      if ip >= 0x4000 && ip < 0x8000 && c.verif_rom_high_bank() as usize != EXPECTED_BANK { TAG_OK = false; }
    }
  }
  pub fn get_address_for_ip(c: &CodeCache, ip: usize) -> Option<usize> {
    check_tag(c, ip);
    if kani::any() { Some(0) } else { None }
  }
  pub fn translate_code_block(c: &mut CodeCache, _code: &Box<[u8]>, ip: usize, _mem: *const MemoryAreas) -> usize {
    check_tag(c, ip);
    0
  }
  /// Executing a block: an arbitrary guest write below 0x8000 (bank switch), arbitrary successor, arbitrary cost >= 1.
  pub fn call(_c: &CodeCache, _offset: usize, registers: &mut Registers) -> u8 {
    unsafe {
      crate::mem::memory_write_byte(MEM, WRITE_ADDR, WRITE_VAL);
      registers.ip = NEXT_IP;
      registers.cycles += ADD_CYCLES;
      STATUS
    }
  }
  pub fn interp_block(registers: &mut Registers, _mem: *mut MemoryAreas) -> u8 {
    unsafe {
      ENTERED_INTERP = true;
      crate::mem::memory_write_byte(MEM, WRITE_ADDR, WRITE_VAL);
      registers.ip = NEXT_IP;
      registers.cycles += ADD_CYCLES;
      STATUS
    }
  }
}

#[cfg(all(kani, verif_c03))]
mod verif_c03 {
  use super::*;
  use crate::vassert;
  use crate::verif::vstub;
  use crate::cart::Header;

  /// L3: the translator reads the same bytes the interpreter fetches and data reads see, for every ROM address and bank state.
  fn source(kind: u8) {
    let cart_type = if kind == 1 { let s: u8 = kani::any(); kani::assume(s >= 1 && s <= 3); s } else { let s: u8 = kani::any(); kani::assume(s >= 0x11 && s <= 0x13); s };
    let rom_code: u8 = kani::any();
    let h = Header::verif_with(cart_type, rom_code, 0);
    let mut m = crate::mem::verif_areas(&h);
    let p = &mut m as *mut MemoryAreas;
    crate::mem::memory_write_byte(p, 0x0000, kani::any());
    crate::mem::memory_write_byte(p, 0x2000, kani::any());
    crate::mem::memory_write_byte(p, 0x4000, kani::any());
    crate::mem::memory_write_byte(p, 0x6000, kani::any());
    let ip: usize = kani::any();
    kani::assume(ip < 0x8000);
    // arbitrary byte at the cell the data path reads
    let banks = crate::cart::verif_ref_rom_banks(rom_code);
    let cell = if ip < 0x4000 { ip } else { (m.get_rom_bank() % banks) * 0x4000 + (ip & 0x3fff) };
    m.rom[cell] = kani::any();
    // (the translator's own view is checked through translate_code_block itself in verif_c03_translate, so that this
    // harness does not depend on the signature of the private helper it uses)
    let data = crate::mem::memory_read_byte(p as *const MemoryAreas, ip as u16);
    let fetch = crate::mem::get_executable_memory_slice(ip, p as *const MemoryAreas);
    vassert!(fetch[0] == data, "C03.source.fetch_reads_mapped_byte");
    vassert!(fetch.len() == 0x4000 - (ip & 0x3fff), "C03.source.fetch_extent_ends_at_bank_boundary");
    kani::cover!(ip >= 0x4000, "reached");
    core::mem::forget(m);
  }
  macro_rules! src {
    ($name:ident, $k:expr) => {
      #[kani::proof]
      #[kani::unwind(6)]
      #[kani::stub(crate::system::get_rom_buffer, vstub::stub_get_rom_buffer)]
      #[kani::stub(crate::mem::create_buffer, vstub::stub_create_buffer)]
      #[kani::stub(crate::devices::video::lcd::LCD::new, vstub::stub_lcd_new)]
      fn $name() { source($k); }
    };
  }
  src!(c03_source_mbc1, 1);
  src!(c03_source_mbc3, 3);
  // VERIF-END verif_c03
}

#[cfg(all(kani, verif_c03))]
mod verif_c03_translate {
  use super::*;
  use crate::vassert;
  use crate::verif::vstub;
  use crate::cart::Header;
  use crate::decoder::ops::Op;

  static mut SEEN: [u8; 6] = [0xf1, 0xf2, 0xf3, 0xf4, 0xf5, 0xf6];
  static mut NSEEN: usize = 0x5a5a_0c0c_0c0c;
  /// `decoder::decode` cut to "three one-byte instructions, then a terminator", recording the first byte it is shown.
  fn mon_decode(instructions: &[u8]) -> (Op, usize, usize) {
    unsafe {
      let k = NSEEN;
      if k < 6 { SEEN[k] = instructions[0]; }
      NSEEN += 1;
      if k < 3 { (Op::NoOp, 1, 4) } else { (Op::Halt, 1, 4) }
    }
  }
  fn stub_encode_op(_e: &Emitter, _op: Op, _inc: usize, exec: &mut [u8]) -> usize { kani::assume(exec.len() >= 8); 8 }
  fn stub_encode_epilogue(_e: &Emitter, exec: &mut [u8]) -> usize { kani::assume(exec.len() >= 3); 3 }

  /// The translator is shown, instruction by instruction, the bytes that are mapped at that address NOW - also when a
  /// block starting in the fixed bank runs across 0x3fff/0x4000 into the switchable bank.
  fn translate_source(kind: u8) {
    let cart_type = if kind == 1 { let s: u8 = kani::any(); kani::assume(s >= 1 && s <= 3); s } else { let s: u8 = kani::any(); kani::assume(s >= 0x11 && s <= 0x13); s };
    let rom_code: u8 = kani::any();
    let h = Header::verif_with(cart_type, rom_code, 0);
    let mut m = crate::mem::verif_areas(&h);
    let p = &mut m as *mut MemoryAreas;
    crate::mem::memory_write_byte(p, 0x2000, kani::any());
    crate::mem::memory_write_byte(p, 0x4000, kani::any());
    crate::mem::memory_write_byte(p, 0x6000, kani::any());
    let banks = crate::cart::verif_ref_rom_banks(rom_code);
    let hi = (m.get_rom_bank() % banks) * 0x4000;
    let vals: [u8; 4] = kani::any();
    m.rom[0x3ffe] = vals[0]; m.rom[0x3fff] = vals[1]; m.rom[hi] = vals[2]; m.rom[hi + 1] = vals[3];
    let want = [crate::mem::memory_read_byte(p as *const MemoryAreas, 0x3ffe), crate::mem::memory_read_byte(p as *const MemoryAreas, 0x3fff),
                crate::mem::memory_read_byte(p as *const MemoryAreas, 0x4000), crate::mem::memory_read_byte(p as *const MemoryAreas, 0x4001)];
    let mut c = CodeCache::verif_new(0x400);
    unsafe { NSEEN = 0; }
    let _ = c.translate_code_block(&m.rom, 0x3ffe, p as *const MemoryAreas);
    let (n, seen) = unsafe { (NSEEN, SEEN) };
    vassert!(n == 4, "C03.translate.block_cut_at_terminator");
    vassert!(seen[0] == want[0] && seen[1] == want[1], "C03.translate.reads_fixed_bank");
    vassert!(seen[2] == want[2] && seen[3] == want[3], "C03.translate.reads_mapped_bank_across_boundary");
    kani::cover!(hi != 0x4000, "reached");
    core::mem::forget(m); core::mem::forget(c);
  }
  macro_rules! ts {
    ($name:ident, $k:expr) => {
      #[kani::proof]
      #[kani::unwind(8)]
      #[kani::stub(crate::system::get_rom_buffer, vstub::stub_get_rom_buffer)]
      #[kani::stub(crate::mem::create_buffer, vstub::stub_create_buffer)]
      #[kani::stub(crate::devices::video::lcd::LCD::new, vstub::stub_lcd_new)]
      #[kani::stub(crate::cache::linux::apply_protection, crate::cache::linux::verif_apply_protection_noop)]
      #[kani::stub(crate::decoder::decode, mon_decode)]
      #[kani::stub(crate::emitter::x86_64::Emitter::encode_op, stub_encode_op)]
      #[kani::stub(crate::emitter::x86_64::Emitter::encode_epilogue, stub_encode_epilogue)]
      fn $name() { translate_source($k); }
    };
  }
  ts!(c03_translate_source_mbc1, 1);
  ts!(c03_translate_source_mbc3, 3);
  // VERIF-END verif_c03_translate
}

/// Native helper (not a Kani harness): translates a few multi-instruction blocks with the REAL
/// `translate_code_block` and prints the machine code, so that the checker can confirm the composition lemma
/// "a block is the concatenation of its instructions' templates followed by the block exit, cut at the first terminator".
#[cfg(all(test, verif_native))]
mod verif_dump_blocks {
  use super::*;
  fn hex(b: &[u8]) -> String { b.iter().map(|x| format!("{:02x}", x)).collect::<Vec<_>>().join("") }
  #[test]
  fn verif_dump_blocks() {
    let blocks: Vec<Vec<u8>> = vec![
      vec![0x00, 0x76],
      vec![0x04, 0x80, 0x34, 0xc9, 0x00],
      vec![0xcb, 0x46, 0xfb, 0x00],
      vec![0x3e, 0x00, 0xc3, 0x00, 0x00, 0x04],
      vec![0xc5, 0xe1, 0x18, 0x00, 0x04],
      vec![0x00, 0x00, 0x00, 0x00, 0x00, 0x00, 0x00, 0x00, 0x00, 0x00, 0x00, 0x00, 0x2a, 0x22, 0x0a, 0x12, 0x10, 0x00, 0x04],
      vec![0xf3, 0x00],
      vec![0xe9, 0x00],
    ];
    println!();
    for (i, code) in blocks.iter().enumerate() {
      let areas = Box::new(MemoryAreas::with_rom(code.clone().into_boxed_slice()));
      let mut c = CodeCache::new();
      let off = c.translate_code_block(&areas.rom, 0, areas.as_ptr());
      let end = c.write_cursor;
      let bytes = c.exec_memory.get_memory_area()[off..end].to_vec();
      println!("B {} mem={:016x} code={} out={}", i, areas.as_ptr() as usize, hex(code), hex(&bytes));
    }
  }
}
