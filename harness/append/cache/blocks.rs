#[cfg(kani)]
impl CachedBlocks {
  pub fn verif_rom_high_bank(&self) -> u16 { self.rom_high.current_bank }
  pub fn verif_rom_low_bank(&self) -> u16 { self.rom_low.current_bank }
  pub fn verif_set_rom_high_bank(&mut self, b: u16) { self.rom_high.current_bank = b; }
}

#[cfg(all(kani, verif_c03))]
mod verif_c03 {
  use super::*;
  use crate::vassert;

  /// Key packing: (bank, address) <-> u32 is a bijection.
  #[kani::proof]
  #[kani::unwind(4)]
  fn c03_key_roundtrip() {
    let bank: u16 = kani::any();
    let addr: u16 = kani::any();
    let k = MemoryLocation::new(bank, addr).as_u32();
    let back = MemoryLocation::from_u32(k);
    vassert!(back.bank == bank && back.address == addr, "C03.key.roundtrip");
    let bank2: u16 = kani::any();
    let addr2: u16 = kani::any();
    let k2 = MemoryLocation::new(bank2, addr2).as_u32();
    vassert!((k == k2) == (bank == bank2 && addr == addr2), "C03.key.injective");
    kani::cover!(true, "reached");
  }

  /// A region stores a block under (current tag, address) and finds it again only under the same tag and address.
  #[kani::proof]
  #[kani::unwind(6)]
  fn c03_region_insert_get() {
    let tag: u16 = kani::any();
    let addr: u16 = kani::any();
    let mut r = CacheRegion::new(tag);
    r.insert(addr, CodeBlock { offset: 0x1234, length: 7, bytes_translated: 3 });
    let stored = *r.cache.keys().next().unwrap();
    vassert!(stored == ((tag as u32) << 16 | addr as u32), "C03.region.insert_key_is_tag_and_address");
    vassert!(r.get(addr).map(|b| b.offset) == Some(0x1234), "C03.region.hit_same_tag_same_address");
    // a different tag: miss, whatever the address
    let other: u16 = kani::any();
    kani::assume(other != tag);
    r.set_bank(other);
    vassert!(r.get(addr).is_none(), "C03.region.miss_after_tag_change");
    r.set_bank(tag);
    vassert!(r.get(addr).is_some(), "C03.region.hit_after_switching_back");
    kani::cover!(true, "reached");
    core::mem::forget(r);
  }

  /// The region split follows the memory map: 0x0000-0x3fff fixed bank, 0x4000-0x7fff switchable bank.
  #[kani::proof]
  #[kani::unwind(4)]
  fn c03_region_split() {
    let mut b = CachedBlocks::new();
    let a: u16 = kani::any();
    kani::assume(a < 0x8000);
    let low = &b.rom_low as *const CacheRegion;
    let high = &b.rom_high as *const CacheRegion;
    let got = b.get_region(a).map(|r| r as *const CacheRegion);
    vassert!(got == Some(if a < 0x4000 { low } else { high }), "C03.split.get_region");
    let got_mut = b.get_region_mut(a).map(|r| r as *const CacheRegion);
    vassert!(got_mut == got, "C03.split.get_region_mut_agrees");
    vassert!(b.rom_low.current_bank == 0, "C03.split.fixed_bank_tag");
    kani::cover!(a >= 0x4000, "reached");
    core::mem::forget(b);
  }
  // VERIF-END verif_c03
}
