/// Native helper (not a Kani harness): runs the REAL decoder and emitter from
/// this tree and prints every template, for several immediate vectors, so that
/// the checker can embed the bytes as constants.  All templates come from one
/// process (helper addresses are position dependent).
#[cfg(all(test, verif_native))]
mod verif_dump {
  use super::*;
  use crate::decoder::decode;

  fn hex(b: &[u8]) -> String { b.iter().map(|x| format!("{:02x}", x)).collect::<Vec<_>>().join("") }

  #[test]
  fn verif_dump_templates() {
    // a real memory image, in case an emitter consults it at translation time
    let areas = Box::new(MemoryAreas::with_rom(vec![0u8; 16].into_boxed_slice()));
    let memp = &*areas as *const MemoryAreas;
    let e = Emitter::new(memp);
    println!();
    println!("ADDR read_byte {:016x}", crate::mem::memory_read_byte as usize);
    println!("ADDR write_byte {:016x}", crate::mem::memory_write_byte as usize);
    println!("ADDR read_word {:016x}", crate::mem::memory_read_word as usize);
    println!("ADDR write_word {:016x}", crate::mem::memory_write_word as usize);
    println!("ADDR push_word {:016x}", crate::mem::memory_push_word as usize);
    println!("ADDR mem {:016x}", memp as usize);
    let mut buf = [0u8; 1024];
    let n = Emitter::write_prelude_function(&mut buf);
    println!("PROLOGUE {}", hex(&buf[..n]));
    let n = Emitter::write_epilogue_function(&mut buf);
    println!("EPILOGUE {}", hex(&buf[..n]));
    let n = e.encode_epilogue(&mut buf);
    println!("BLOCKEXIT {}", hex(&buf[..n]));
    let v1 = [0x00u8, 0xff, 0x5a, 0xa5, 0x01, 0x80, 0x7e, 0x7f];
    let v2 = [0x00u8, 0xff, 0xc3, 0x3c, 0x80, 0x01, 0x7f, 0x7e];
    let undefined = [0xd3u8, 0xdb, 0xdd, 0xe3, 0xe4, 0xeb, 0xec, 0xed, 0xf4, 0xfc, 0xfd];
    for op in 0..=255u8 {
      if op == 0xcb || undefined.contains(&op) { continue; }
      for k in 0..8 {
        let code = [op, v1[k], v2[k]];
        let (o, len, cyc) = decode(&code);
        let end = o.is_block_end();
        let n = e.encode_op(o, len, &mut buf);
        println!("T {:02x} {} {:02x} {:02x} len={} clocks={} end={} {}", op, k, v1[k], v2[k], len, cyc, end as u8, hex(&buf[..n]));
        if len == 1 { break; }
      }
    }
    for op in 0..=255u8 {
      let code = [0xcb, op, 0];
      let (o, len, cyc) = decode(&code);
      let end = o.is_block_end();
      let n = e.encode_op(o, len, &mut buf);
      println!("T cb{:02x} 0 00 00 len={} clocks={} end={} {}", op, len, cyc, end as u8, hex(&buf[..n]));
    }
  }
}
